"""Monitors of Engine F (DESIGN §4.2, §5): they read the ledger, public stats and — as optional
cross-checks — the real containers."""
import collections
from .engine_f import FMonitor, EPS, INF


def tname(n):
    return type(n).__name__


def store_of(e):
    return getattr(e, "inbuiltstore", None) or getattr(e, "belt", None)


def container(e):
    st = store_of(e)
    out = []
    for x in list(getattr(st, "items", [])) + list(getattr(st, "ready_items", [])):
        out.append(x[0] if isinstance(x, tuple) else x)
    return out


def ready(e):
    st = store_of(e)
    return list(getattr(st, "ready_items", []))


# ------------------------------------------------------------------------------------------- C03
class C03(FMonitor):
    prop = "C03"

    def on_step(self, led):
        # container scan: real containers == ledger
        byedge = collections.defaultdict(list)
        bypallet = collections.defaultdict(list)
        for it in led.items:
            l = led.loc[id(it)]
            if l[0] == "edge":
                byedge[l[1]].append(it)
            elif l[0] == "pallet":
                bypallet[l[1]].append(it)
        for eid, e in led.edges.items():
            real = container(e)
            a = sorted(id(x) for x in real)
            b = sorted(id(x) for x in byedge.get(eid, []))
            if a != b:
                led.V("C03", "containers-agree", "edge %s holds %s, the ledger places %s there"
                      % (eid, [getattr(x, "id", x) for x in real], [x.id for x in byedge.get(eid, [])]),
                      dup=len(set(a)) != len(a), edge=tname(e))
                return
        for it in led.items:
            if hasattr(it, "items") and getattr(it, "flow_item_type", "") == "Pallet":
                a = sorted(id(x) for x in it.items)
                b = sorted(id(x) for x in bypallet.get(it.id, []))
                if a != b:
                    led.V("C03", "containers-agree", "pallet %s carries %s, the ledger packs %s in it"
                          % (it.id, [x.id for x in it.items], [x.id for x in bypallet.get(it.id, [])]), edge="pallet")
                    return
        gen = 0
        for nid, n in led.nodes.items():
            if "num_item_discarded" in n.stats:
                cnt = sum(1 for l in led.loc.values() if l == ("discarded", nid))
                if cnt != n.stats["num_item_discarded"]:
                    led.V("C03", "discarded-and-counted", "%s dropped %d item(s) but counts %r" % (nid, cnt, n.stats["num_item_discarded"]),
                          node=tname(n))
                    return
            if tname(n) == "Source":
                gen += n.stats["num_item_generated"]
        if gen != len(led.items):
            led.V("C03", "generated=sum-of-places", "sources report %d generated items, %d flow items exist" % (gen, len(led.items)))

    def on_instant_end(self, led):
        # an item the ledger places inside a node must still be in the hands of one of that node's processes
        bynode = collections.defaultdict(list)
        for it in led.items:
            l = led.loc[id(it)]
            if l[0] in ("node", "source"):
                bynode[l[1]].append(it)
        for nid, its in bynode.items():
            n = led.nodes.get(nid)
            if n is None:
                continue
            held = led.held_by_processes(n)
            for it in its:
                if id(it) not in held:
                    led.V("C03", "not-lost-inside-node", "%s was taken by %s and is neither pushed, packed nor counted as discarded, and no process of %s holds it any more (t=%s)"
                          % (it.id, nid, nid, led.env.now), node=tname(n))
                    return

    def on_finish(self, led, T):
        if led.cfg.get("drains"):
            left = [(it.id, led.loc[id(it)]) for it in led.items if led.loc[id(it)][0] not in ("sink", "discarded")]
            if left:
                led.V("C03", "finite-input-drains", "at the horizon %s these items are neither received nor counted as discarded: %s" % (T, left[:6]),
                      where=left[0][1][0])


# ------------------------------------------------------------------------------------------- C08
class C08(FMonitor):
    prop = "C08"

    def __init__(self, led):
        self.checked = set()

    def on_step(self, led):
        for nid, n in led.nodes.items():
            tn = tname(n)
            if tn == "Machine":
                inside = sum(1 for l in led.loc.values() if l == ("node", nid))
                if inside > n.work_capacity:
                    led.V("C08", "at-most-work_capacity", "%s holds %d items, work_capacity %d" % (nid, inside, n.work_capacity), node=tn)
                pulls = led.pulls.get(nid, [])
                draws = led.draws.get("pd:" + nid)
                if draws is not None and len(draws) != len(pulls):
                    led.V("C08", "delay-drawn-once-per-item", "%s pulled %d item(s) and consulted its processing delay %d time(s)"
                          % (nid, len(pulls), len(draws)), node=tn, more=len(draws) > len(pulls))
            if tn == "Splitter":
                pal = [it for it in led.items if led.loc[id(it)] == ("node", nid) and getattr(it, "flow_item_type", "") == "Pallet"]
                if len(pal) > 1:
                    led.V("C08", "at-most-work_capacity", "splitter %s holds %d pallets at once: %s" % (nid, len(pal), [x.id for x in pal]), node=tn)
            if tn in ("Splitter", "Combiner"):
                draws = led.draws.get("pd:" + nid)
                if draws is not None:
                    units = sum(1 for (t, it, idx) in led.pulls.get(nid, []) if getattr(it, "flow_item_type", "") == "Pallet")
                    # a combiner draws once per completed pallet, a splitter once per pulled pallet
                    if len(draws) > units:
                        led.V("C08", "delay-drawn-once-per-item", "%s started %d unit(s) of work and consulted its processing delay %d time(s)"
                              % (nid, units, len(draws)), node=tn, more=True)
        # offer exactly one delay after the pull
        for (iid, nid), t_offer in list(led.offers.items()):
            if (iid, nid) in self.checked:
                continue
            n = led.nodes.get(nid)
            if n is not None and tname(n) == "Splitter":
                self.splitter_offer(led, n, nid, iid, t_offer)
                continue
            if n is not None and tname(n) == "Combiner":
                self.combiner_offer(led, n, nid, iid, t_offer)
                continue
            if n is None or tname(n) != "Machine":
                continue
            self.checked.add((iid, nid))
            pulls = led.pulls.get(nid, [])
            k = next((i for i, (t, it, idx) in enumerate(pulls) if id(it) == iid), None)
            if k is None:
                continue
            t_pull = pulls[k][0]
            d = self.delay_of(led, n, nid, k)
            if d is None:
                continue
            if abs((t_offer - t_pull) - d) > EPS * max(1.0, t_offer):
                led.V("C08", "offered-exactly-one-delay-after-pull", "%s pulled %s at %s with delay %s but offered it downstream at %s"
                      % (nid, pulls[k][1].id, t_pull, d, t_offer), node="Machine", late=(t_offer - t_pull) > d)

    def splitter_offer(self, led, n, nid, iid, t_offer):
        """the first thing a splitter offers for a pallet (its first item, or the empty pallet) comes exactly one delay after the pull"""
        pulls = [(t, it) for (t, it, idx) in led.pulls.get(nid, []) if getattr(it, "flow_item_type", "") == "Pallet"]
        if not pulls:
            return
        k = len(pulls) - 1
        t_pull, pal = pulls[k]
        if ("pal", k, nid) in self.checked:
            self.checked.add((iid, nid))
            return
        self.checked.add(("pal", k, nid))
        self.checked.add((iid, nid))
        draws = led.draws.get("pd:" + nid)
        d = draws[k][1] if draws is not None and k < len(draws) else (n.processing_delay if isinstance(n.processing_delay, (int, float)) else None)
        if d is None:
            return
        if abs((t_offer - t_pull) - d) > EPS * max(1.0, t_offer):
            led.V("C08", "offered-exactly-one-delay-after-pull", "splitter %s pulled %s at %s with delay %s but first offered its content downstream at %s"
                  % (nid, pal.id, t_pull, d, t_offer), node="Splitter", late=(t_offer - t_pull) > d)

    def combiner_offer(self, led, n, nid, iid, t_offer):
        """a combiner works on one pallet at a time: pallet k is offered no earlier than one processing delay after both its
        delay was drawn (all ingredients in) and pallet k-1 has left"""
        self.checked.add((iid, nid))
        draws = led.draws.get("pd:" + nid)
        if not draws:
            return
        pals = [it for (t, it, idx) in led.pulls.get(nid, []) if getattr(it, "flow_item_type", "") == "Pallet"]
        k = next((i for i, p in enumerate(pals) if id(p) == iid), None)
        if k is None or k >= len(draws):
            return
        t_draw, d = draws[k]
        prev_left = 0.0
        if k > 0:
            pp = [t for (t, it, idx) in led.pushes.get(nid, []) if it is pals[k - 1]]
            dd = [t for (t, nn, it) in led.discards if nn == nid and it is pals[k - 1]]
            if not pp and not dd:
                led.V("C08", "at-most-work_capacity", "combiner %s offers %s downstream while %s has not left yet" % (nid, pals[k].id, pals[k - 1].id), node="Combiner")
                return
            prev_left = (pp + dd)[0]
        start = max(t_draw, prev_left)
        if t_offer < start + d - EPS * max(1.0, t_offer):
            led.V("C08", "offered-exactly-one-delay-after-pull", "combiner %s offered %s at %s: its delay %s was drawn at %s and the previous pallet left at %s, so processing cannot have ended before %s"
                  % (nid, pals[k].id, t_offer, d, t_draw, prev_left, start + d), node="Combiner", late=False)

    def delay_of(self, led, n, nid, k):
        draws = led.draws.get("pd:" + nid)
        if draws is not None:
            return draws[k][1] if k < len(draws) else None
        pd = n.processing_delay
        return pd if isinstance(pd, (int, float)) else None

    def on_instant_end(self, led):
        # an item whose delay has elapsed must have been offered (late departure is judged by C10)
        for nid, n in led.nodes.items():
            if tname(n) != "Machine":
                continue
            pulls = led.pulls.get(nid, [])
            for k, (t_pull, it, idx) in enumerate(pulls):
                if led.loc.get(id(it)) != ("node", nid):
                    continue
                d = self.delay_of(led, n, nid, k)
                if d is None:
                    continue
                if led.env.now >= t_pull + d and n.blocking and (id(it), nid) in led.offers:
                    # finished and still here: every permitted out-edge must be unable to accept it.  A place that is only
                    # "reserved" by a process that no longer exists is a free place.
                    for e in (n.out_edges or []):
                        if tname(e) not in ("Buffer", "Fleet"):
                            continue
                        if n.out_edge_selection != "FIRST_AVAILABLE":
                            continue
                        alive = [g for g in led.live_tokens(e, "p", "granted") if proc_alive(g.proc)]
                        if e.capacity - led.held(e) - len(alive) > 0:
                            led.V("C08", "leaves-when-an-edge-accepts", "%s still holds finished %s at the end of instant %s although out-edge %s holds %d of %d items and no live process has a place reserved there"
                                  % (nid, it.id, led.env.now, e.id, led.held(e), e.capacity), node="Machine", orphan_reservation=len(alive) < len(led.live_tokens(e, "p", "granted")))
                            return
                if led.env.now >= t_pull + d and (id(it), nid) not in led.offers:
                    led.V("C08", "offered-exactly-one-delay-after-pull", "%s pulled %s at %s with delay %s and has not offered it by the end of instant %s"
                          % (nid, it.id, t_pull, d, led.env.now), node="Machine", late=True)


# ------------------------------------------------------------------------------------------- C09
class C09(FMonitor):
    prop = "C09"

    def __init__(self, led):
        self.seen_cp = 0
        self.seen_da = 0
        self.seen_dr = 0

    def on_step(self, led):
        # an item is dropped only if no out-edge asked on its behalf in that instant had room
        for (t, nid, it, asks) in led.discard_asks[self.seen_da:]:
            for (ta, eid, ans, room) in asks:
                if room > 0 and tname(led.edges[eid]) in ("Buffer", "Fleet"):
                    led.V("C09", "drops-only-when-no-room", "%s dropped %s at %s although out-edge %s, asked for this item in the same instant, had %d free unreserved place(s) (it answered %s)"
                          % (nid, getattr(it, "id", it), t, eid, room, ans), node=tname(led.nodes[nid]), answered=ans)
                    break
        self.seen_da = len(led.discard_asks)
        # under FIRST_AVAILABLE *any* out-edge with room must take the item: at the moment of the drop no out-edge (asked or not)
        # may have a free unreserved place
        for (t, nid, it, rooms) in led.discard_rooms[self.seen_dr:]:
            for (eid, room) in rooms:
                if room > 0:
                    led.V("C09", "first-available-tries-every-edge", "%s (FIRST_AVAILABLE) dropped %s at %s although out-edge %s had %d free unreserved place(s) at that moment"
                          % (nid, getattr(it, "id", it), t, eid, room), node=tname(led.nodes[nid]))
                    break
        self.seen_dr = len(led.discard_rooms)
        for nid, n in led.nodes.items():
            if getattr(n, "blocking", None) is True and n.stats.get("num_item_discarded", 0) != 0:
                led.V("C09", "blocking-never-discards", "blocking %s %s reports %d discarded item(s)" % (tname(n), nid, n.stats["num_item_discarded"]),
                      node=tname(n))
        for (t, nid, eid, ans, room, _g) in led.canput[self.seen_cp:]:
            e = led.edges[eid]
            if tname(e) in ("Buffer", "Fleet") and ans != (room > 0):
                led.V("C09", "can_put-reflects-room", "%s asked %s.can_put() at %s: answer %s, free unreserved space %d"
                      % (nid, eid, t, ans, room), edge=tname(e), answered=ans)
        self.seen_cp = len(led.canput)

    def on_instant_end(self, led):
        now = led.env.now
        for nid, n in led.nodes.items():
            if getattr(n, "blocking", None) is not False:
                continue
            tn = tname(n)
            if tn == "Source":
                held = [it for it in led.items if led.loc[id(it)] == ("source", nid)]
                for it in held:
                    if it.timestamp_creation is None or True:
                        led.V("C09", "non-blocking-never-waits", "non-blocking source %s still holds %s at the end of the instant it was created (t=%s)"
                              % (nid, it.id, now), node=tn)
                        return
            elif tn == "Machine":
                pulls = led.pulls.get(nid, [])
                for k, (t_pull, it, idx) in enumerate(pulls):
                    if led.loc.get(id(it)) != ("node", nid):
                        continue
                    draws = led.draws.get("pd:" + nid)
                    d = draws[k][1] if draws is not None and k < len(draws) else (n.processing_delay if isinstance(n.processing_delay, (int, float)) else None)
                    if d is not None and now >= t_pull + d:
                        led.V("C09", "non-blocking-never-waits", "non-blocking machine %s still holds %s (pulled %s, delay %s) at the end of instant %s"
                              % (nid, it.id, t_pull, d, now), node=tn)
                        return
        for t in led.live_tokens(side="p", status="pending"):
            n = t.node
            if n is not None and getattr(n, "blocking", None) is False:
                led.V("C09", "non-blocking-never-waits", "non-blocking %s %s is waiting for space on %s at the end of instant %s instead of dropping the item"
                      % (tname(n), n.id, t.edge.id, now), node=tname(n), waiting_on_full_edge=True)
                return
        # a blocking node waits only while no out-edge accepts the item: space that is merely taken by a stale reservation of
        # the waiting node itself (granted, never used, never withdrawn) is room the node keeps itself out of
        for t in led.live_tokens(side="p", status="pending"):
            n, e = t.node, t.edge
            if n is None or getattr(n, "blocking", None) is not True or tname(e) not in ("Buffer", "Fleet"):
                continue
            others = [g for g in led.live_tokens(e, "p", "granted") if g.node is not n]
            own = [g for g in led.live_tokens(e, "p", "granted") if g.node is n]
            free = e.capacity - led.held(e) - len(others)
            if free > 0 and own and all(g.t_grant is not None and g.t_grant < now - EPS for g in own):
                led.V("C09", "blocking-leaves-when-an-edge-accepts", "blocking %s %s waits for space on %s at the end of instant %s although it holds %d of %d places: the rest is only taken by %d reservation(s) %s itself was granted earlier and never used"
                      % (tname(n), n.id, e.id, now, led.held(e), e.capacity, len(own), n.id), node=tname(n), own_stale_reservation=True)
                return
        # decision correctness: a discard happens only when no permitted edge answered can_put() == True in that instant
        for (t, nid, it) in led.discards:
            if abs(t - now) > EPS:
                continue
            n = led.nodes[nid]
            recs = [r for r in led.canput if abs(r[0] - t) < EPS and r[1] == nid]
            if not recs:
                led.V("C09", "discard-only-after-probe", "%s discarded %s at %s without asking any out-edge" % (nid, getattr(it, "id", it), t), node=tname(n))
                continue
            # space that was only "taken" by reservations which this very node withdrew unused in the same instant was room
            for (tt, nn, eid, ans, room, granted) in recs:
                own = [g for g in granted if g.node is n and g.status == "cancelled" and g.t_end is not None and abs(g.t_end - t) < EPS]
                if not ans and room + len(own) > 0 and n.stats.get("num_item_discarded", 0) > 0:
                    led.V("C09", "pushed-if-any-edge-has-room", "%s dropped %s at %s although out-edge %s had room: its free place(s) were only held by %d reservation(s) of %s itself that it withdrew unused in the same instant"
                          % (nid, getattr(it, "id", it), t, eid, len(own), nid), node=tname(n), own_reservations=True)
                    return


FMONITORS = {"C03": [C03], "C08": [C08], "C09": [C09]}


# ------------------------------------------------------------------------------------------- helpers
def proc_alive(p):
    return p is not None and getattr(p, "is_alive", False)


def waits_on(p, ev, depth=0):
    """is process p (transitively through conditions) waiting on event ev?"""
    tgt = getattr(p, "_target", None)
    return _contains(tgt, ev, 0)


def _contains(tgt, ev, depth):
    if tgt is None or depth > 4:
        return False
    if tgt is ev:
        return True
    evs = getattr(tgt, "_events", None)
    if evs:
        return any(_contains(x, ev, depth + 1) for x in evs)
    return False


def machine_delay(led, n, nid, k):
    draws = led.draws.get("pd:" + nid)
    if draws is not None:
        return draws[k][1] if k < len(draws) else None
    pd = getattr(n, "processing_delay", None)
    return pd if isinstance(pd, (int, float)) else None


# ------------------------------------------------------------------------------------------- C10
class C10(FMonitor):
    prop = "C10"

    def on_instant_end(self, led):
        now = led.env.now
        inside = collections.Counter(l[1] for l in led.loc.values() if l[0] == "node")
        # (i) a sink leaves nothing that is available
        for eid, e in led.edges.items():
            if tname(e.dest_node) == "Sink":
                r = ready(e)
                if r:
                    led.V("C10", "sink-takes-available-items", "at the end of instant %s edge %s into sink %s still offers %s"
                          % (now, eid, e.dest_node.id, [x.id for x in r]), edge=tname(e))
                    return
        live = led.live_tokens()
        by_node = collections.defaultdict(list)
        for t in live:
            by_node[(led.nid(t.node), t.side)].append(t)
        for nid, n in led.nodes.items():
            tn = tname(n)
            if now < getattr(n, "node_setup_time", 0) - EPS:
                continue
            gtok = by_node.get((nid, "g"), [])
            ptok = by_node.get((nid, "p"), [])
            if tn == "Machine":
                if inside[nid] < n.work_capacity:
                    edges_with = {id(t.edge) for t in gtok}
                    if n.in_edge_selection == "FIRST_AVAILABLE":
                        missing = [e.id for e in n.in_edges if id(e) not in edges_with]
                        if missing:
                            led.V("C10", "free-worker-requests-input", "machine %s has a free worker at the end of instant %s but no request on in-edge(s) %s"
                                  % (nid, now, missing), node=tn, policy="FIRST_AVAILABLE")
                            return
                    elif len(edges_with) != 1:
                        led.V("C10", "free-worker-requests-input", "machine %s has a free worker at the end of instant %s and requests on %d in-edges (policy selects exactly one)"
                              % (nid, now, len(edges_with)), node=tn, policy="selected")
                        return
                # finished items must be on offer
                if n.blocking:
                    pulls = led.pulls.get(nid, [])
                    fin = [it for k, (tp, it, idx) in enumerate(pulls) if led.loc.get(id(it)) == ("node", nid)
                           and machine_delay(led, n, nid, k) is not None and now >= tp + machine_delay(led, n, nid, k)]
                    if fin:
                        edges_with = collections.Counter(id(t.edge) for t in ptok)
                        if n.out_edge_selection == "FIRST_AVAILABLE":
                            missing = [e.id for e in n.out_edges if edges_with[id(e)] < len(fin)]
                            if missing:
                                led.V("C10", "finished-item-on-offer", "machine %s holds %d finished item(s) at the end of instant %s but has fewer space requests on out-edge(s) %s"
                                      % (nid, len(fin), now, missing), node=tn, policy="FIRST_AVAILABLE")
                                return
                        elif sum(edges_with.values()) < len(fin):
                            led.V("C10", "finished-item-on-offer", "machine %s holds %d finished item(s) at the end of instant %s but only %d space request(s)"
                                  % (nid, len(fin), now, sum(edges_with.values())), node=tn, policy="selected")
                            return
            elif tn == "Source" and n.blocking:
                held = [it for it in led.items if led.loc[id(it)] == ("source", nid)]
                if held and not ptok:
                    led.V("C10", "finished-item-on-offer", "blocking source %s holds %s at the end of instant %s without any space request"
                          % (nid, held[0].id, now), node=tn, policy=str(n.out_edge_selection)[:16])
                    return
            elif tn == "Sink":
                edges_with = {id(t.edge) for t in gtok}
                missing = [e.id for e in n.in_edges if id(e) not in edges_with]
                if missing:
                    led.V("C10", "sink-requests-input", "sink %s has no retrieval request on %s at the end of instant %s" % (nid, missing, now), node=tn)
                    return
            elif tn == "Splitter":
                if not gtok and inside[nid] == 0:
                    led.V("C10", "free-worker-requests-input", "idle splitter %s has no retrieval request at the end of instant %s" % (nid, now), node=tn, policy="-")
                    return
            elif tn == "Combiner":
                if not gtok and inside[nid] == 0:
                    led.V("C10", "free-worker-requests-input", "idle combiner %s has no retrieval request at the end of instant %s" % (nid, now), node=tn, policy="-")
                    return
        # a waiting request that could be served: the item / the room is there and the node is not taking it
        for t in live:
            if t.status != "pending" or tname(t.edge) not in ("Buffer", "Fleet"):
                continue
            if t.side == "p" and led.room(t.edge) > 0:
                led.V("C10", "pushed-when-room", "%s waits to push into %s at the end of instant %s although the edge has %d free unreserved slot(s)"
                      % (led.nid(t.node), t.edge.id, now, led.room(t.edge)), node=tname(t.node), edge=tname(t.edge))
                return
            if t.side == "g":
                avail = len(ready(t.edge)) - len(led.live_tokens(t.edge, "g", "granted"))
                if avail > 0:
                    led.V("C10", "taken-when-available", "%s waits for an item from %s at the end of instant %s although %d available item(s) are not reserved"
                          % (led.nid(t.node), t.edge.id, now, avail), node=tname(t.node), edge=tname(t.edge))
                    return
        # (iv) token hygiene
        for t in live:
            if t.status == "pending":
                if not proc_alive(t.proc) or not waits_on(t.proc, t.ev):
                    led.V("C10", "no-reservation-left-behind", "%s request on %s issued at %s by %s is still pending at the end of instant %s but its owner no longer waits for it"
                          % ("space" if t.side == "p" else "retrieval", t.edge.id, t.t_issue, led.nid(t.node), now),
                          side=t.side, state="pending", node=tname(t.node))
                    return
            else:
                tgt = getattr(t.proc, "_target", None)
                if type(tgt).__name__ not in ("Request", "PriorityRequest"):
                    led.V("C10", "no-reservation-left-behind", "granted %s reservation on %s (issued %s by %s) is neither used nor cancelled at the end of instant %s"
                          % ("space" if t.side == "p" else "retrieval", t.edge.id, t.t_issue, led.nid(t.node), now),
                          side=t.side, state="granted", node=tname(t.node))
                    return


# ------------------------------------------------------------------------------------------- C15
class SelList(list):
    def __init__(self, led, node, side, init=()):
        list.__init__(self, init)
        self.led, self.node, self.side = led, node, side
        self.decisions = []

    def append(self, v):
        list.append(self, v)
        p, _ = self.led.caller()
        self.decisions.append((self.led.env.now, v, self.led.frame_item(p)))


class C15(FMonitor):
    prop = "C15"

    def __init__(self, led):
        self.lists = {}
        for nid, n in led.nodes.items():
            for side in ("in", "out"):
                k = side + "_edge_selection"
                if k in n.stats:
                    sl = SelList(led, n, side, n.stats[k])
                    dict.__setitem__(n.stats, k, sl)
                    self.lists[(nid, side)] = sl
        self.cancel_seen = 0

    def on_step(self, led):
        # FIRST_AVAILABLE: the used token must be the lowest-index one among the batch members that were granted
        for t in led.tokens:
            if t.status == "used" and not t.checked:
                t.checked = True
                sibs = [s for s in led.tokens if s is not t and s.batch == t.batch and s.status == "cancelled"]
                node = t.node
                if node is None or tname(node) == "Combiner":
                    continue
                lst = getattr(node, ("out" if t.side == "p" else "in") + "_edges", None) or []
                idx = {id(e): i for i, e in enumerate(lst)}
                for s in sibs:
                    if s.was_triggered and idx.get(id(s.edge), 99) < idx.get(id(t.edge), -1):
                        led.V("C15", "first-available-lowest-index", "%s used %s (index %d) although its request on %s (index %d) had been granted too"
                              % (led.nid(node), t.edge.id, idx[id(t.edge)], s.edge.id, idx[id(s.edge)]), node=tname(node), side=t.side)
                        return
                    # ... or could have been: a lower-index out-edge with a free place nobody else holds a reservation for
                    if (t.side == "p" and not s.was_triggered and idx.get(id(s.edge), 99) < idx.get(id(t.edge), -1)
                            and tname(s.edge) in ("Buffer", "Fleet")):
                        others = [g for g in led.live_tokens(s.edge, "p", "granted") if g.batch != t.batch]
                        free = s.edge.capacity - led.held(s.edge) - len(others)
                        if free > 0:
                            led.V("C15", "first-available-lowest-index", "%s used %s (index %d) although %s (index %d) had %d free place(s) nobody else had reserved: its request there was never granted"
                                  % (led.nid(node), t.edge.id, idx[id(t.edge)], s.edge.id, idx[id(s.edge)], free), node=tname(node), side=t.side,
                                  lower_edge_had_room=True)
                            return

    def on_finish(self, led, T):
        self.final(led)

    def final(self, led):
        for nid, n in led.nodes.items():
            tn = tname(n)
            for side in ("in", "out"):
                edges = getattr(n, side + "_edges", None) or []
                if not edges:
                    continue
                pol_attr = getattr(n, side + "_edge_selection", None)
                spec = next((nd for nd in led.cfg["nodes"] if nd["id"] == nid), {}).get(side + "_pol", "FIRST_AVAILABLE")
                moves = led.pulls.get(nid, []) if side == "in" else led.pushes.get(nid, [])
                actual = [idx for (t, it, idx) in moves]
                sl = self.lists.get((nid, side))
                if tn == "Combiner" and side == "in":
                    continue
                if sl is not None:
                    if side == "in":
                        rec = list(sl)
                        # the k-th recorded choice is the edge of the k-th pull (a last choice may still be waiting)
                        if rec[:len(actual)] != actual or len(rec) - len(actual) not in (0, 1):
                            led.V("C15", "recorded=actual", "%s recorded in-edge choices %s, items were pulled from %s" % (nid, rec, actual), node=tn, side=side)
                            return
                    else:
                        # per item: the recorded choice is the edge the item went to
                        dest = {id(it): idx for (t, it, idx) in moves}
                        for (t, v, it) in sl.decisions:
                            if it is not None and id(it) in dest and dest[id(it)] != v:
                                led.V("C15", "recorded=actual", "%s recorded out-edge %r for %s, the item went to out-edge %r" % (nid, v, it.id, dest[id(it)]), node=tn, side=side)
                                return
                        if len(sl) < len(actual):
                            led.V("C15", "recorded=actual", "%s pushed %d items but recorded %d out-edge choices" % (nid, len(actual), len(sl)), node=tn, side=side)
                            return
                if spec == "ROUND_ROBIN":
                    seq = list(sl) if sl is not None else actual
                    exp = [k % len(edges) for k in range(len(seq))]
                    if seq != exp:
                        led.V("C15", "round-robin-cyclic", "%s %s-edge choices under ROUND_ROBIN: %s, expected %s" % (nid, side, seq, exp), node=tn, side=side)
                        return
                    if sl is None and actual != exp[:len(actual)]:
                        led.V("C15", "round-robin-cyclic", "%s routed %s, expected %s" % (nid, actual, exp), node=tn, side=side)
                        return
                elif isinstance(spec, int):
                    if any(a != spec for a in actual) or (sl is not None and any(a != spec for a in sl)):
                        led.V("C15", "constant-index", "%s must always use %s-edge %d, used %s" % (nid, side, spec, actual), node=tn, side=side)
                        return
                elif isinstance(spec, (list, tuple)) or spec == "RANDOM":
                    name = "sel:%s:%s" % (nid, side) if spec != "RANDOM" else "random.randint"
                    draws = [v for (t, v) in led.draws.get(name, [])] if spec != "RANDOM" else None
                    if draws is None:
                        continue
                    if sl is not None:
                        seq = list(sl)
                        if seq != draws[:len(seq)] or len(draws) != len(seq):
                            led.V("C15", "selector-consulted-once-and-obeyed", "%s %s-edge selector answered %s, recorded choices %s, routing %s"
                                  % (nid, side, draws, seq, actual), node=tn, side=side, more=len(draws) > len(seq))
                            return
                    elif tn == "Source":
                        made = [it for it in led.items if any(e[1] == "create" and e[3] == nid and e[4] == it.id for e in led.events)]
                        dest = {id(it): idx for (t, it, idx) in moves}
                        if len(draws) != len(made):
                            led.V("C15", "selector-consulted-once-and-obeyed", "%s created %d items and consulted its selector %d times"
                                  % (nid, len(made), len(draws)), node=tn, side=side, more=len(draws) > len(made))
                            return
                        for k, it in enumerate(made):
                            if id(it) in dest and dest[id(it)] != draws[k]:
                                led.V("C15", "selector-consulted-once-and-obeyed", "%s: selector answered %r for %s, the item went to out-edge %r"
                                      % (nid, draws[k], it.id, dest[id(it)]), node=tn, side=side, more=False)
                                return


# ------------------------------------------------------------------------------------------- C16
class C16(FMonitor):
    prop = "C16"

    def __init__(self, led):
        self.pull_seen = collections.Counter()
        self.push_seen = collections.Counter()
        self.split = {}     # splitter id -> [pallet, content list, emitted list]
        self.comb_pallet = {}

    def on_step(self, led):
        for nid, n in led.nodes.items():
            tn = tname(n)
            if tn == "Splitter":
                pulls = led.pulls.get(nid, [])
                for (t, it, idx) in pulls[self.pull_seen[nid]:]:
                    cur = self.split.get(nid)
                    if cur is not None and not cur[3] and not any(x is cur[0] for (tt, nn, x) in led.discards if nn == nid):
                        led.V("C16", "splitter-finishes-pallet", "%s pulled %s before it had emitted pallet %s" % (nid, it.id, cur[0].id), node=tn)
                    self.split[nid] = [it, list(getattr(it, "items", [])), [], False]
                self.pull_seen[nid] = len(pulls)
                pushes = led.pushes.get(nid, [])
                for (t, it, idx) in pushes[self.push_seen[nid]:]:
                    self.emit(led, nid, n, it)
                self.push_seen[nid] = len(pushes)
            elif tn == "Combiner":
                pulls = led.pulls.get(nid, [])
                for (t, it, idx) in pulls[self.pull_seen[nid]:]:
                    if getattr(it, "flow_item_type", "") == "Pallet":
                        # what the pallet already carried when it arrived is not this combiner's business
                        self.comb_pallet[id(it)] = [x for x in it.items if led.loc.get(id(x)) == ("pallet", it.id)
                                                    and not any(x is p[1] for p in pulls)]
                self.pull_seen[nid] = len(pulls)
                pushes = led.pushes.get(nid, [])
                for (t, it, idx) in pushes[self.push_seen[nid]:]:
                    self.check_pallet(led, nid, n, it)
                self.push_seen[nid] = len(pushes)

    def emit(self, led, nid, n, it):
        cur = self.split.get(nid)
        if cur is None:
            led.V("C16", "splitter-emits-only-content", "%s emitted %s without having pulled a pallet" % (nid, it.id), node="Splitter")
            return
        pallet, content, emitted, done = cur
        disc = [x for (t, nn, x) in led.discards if nn == nid]
        if it is pallet:
            gone = {id(x) for x in emitted} | {id(x) for x in disc}
            missing = [x.id for x in content if id(x) not in gone]
            if missing or len(pallet.items):
                led.V("C16", "splitter-pallet-last-and-empty", "%s emitted pallet %s while item(s) %s were not emitted yet (pallet still carries %d)"
                      % (nid, pallet.id, missing, len(pallet.items)), node="Splitter")
            cur[3] = True
            return
        if done:
            led.V("C16", "splitter-emits-only-content", "%s emitted %s after pallet %s" % (nid, it.id, pallet.id), node="Splitter")
        elif not any(it is x for x in content):
            led.V("C16", "splitter-emits-only-content", "%s emitted %s which was not in pallet %s" % (nid, it.id, pallet.id), node="Splitter")
        elif any(it is x for x in emitted):
            led.V("C16", "splitter-each-item-once", "%s emitted %s twice" % (nid, it.id), node="Splitter")
        emitted.append(it)

    def check_pallet(self, led, nid, n, pal):
        recipe = list(n.target_quantity_of_each_item)
        pulls = led.pulls.get(nid, [])
        ppull = [(k, t) for k, (t, it, idx) in enumerate(pulls) if it is pal]
        if getattr(pal, "flow_item_type", None) != "Pallet" or not ppull or pulls[ppull[0][0]][2] != 0:
            led.V("C16", "combiner-emits-pallet-from-edge-0", "%s emitted %r which is not a pallet taken from its first in-edge" % (nid, getattr(pal, "id", pal)), node="Combiner")
            return
        k0 = ppull[0][0]
        src = {}
        for k, (t, it, idx) in enumerate(pulls):
            src[id(it)] = (k, idx)
        got = collections.Counter()
        before = self.comb_pallet.get(id(pal), [])
        lost = [x.id for x in before if not any(x is y for y in pal.items)]
        if lost:
            led.V("C16", "combiner-keeps-earlier-content", "pallet %s arrived at %s carrying %s and leaves without %s" % (pal.id, nid, [x.id for x in before], lost), node="Combiner")
            return
        for x in pal.items:
            if any(x is b for b in before):
                continue
            k, idx = src.get(id(x), (None, None))
            if k is None or k < k0:
                led.V("C16", "combiner-content-from-its-edges", "pallet %s leaving %s carries %s which was not pulled after the pallet" % (pal.id, nid, getattr(x, "id", x)), node="Combiner")
                return
            got[idx] += 1
        if len(set(id(x) for x in pal.items)) != len(pal.items):
            led.V("C16", "combiner-content-distinct", "pallet %s carries an item twice" % pal.id, node="Combiner")
            return
        for i in range(1, len(n.in_edges)):
            want = recipe[i] if i < len(recipe) else 0
            if got.get(i, 0) != want:
                led.V("C16", "combiner-recipe-exact", "pallet %s leaving %s carries %d item(s) from in-edge %d, recipe says %d (content by edge %s)"
                      % (pal.id, nid, got.get(i, 0), i, want, dict(got)), node="Combiner", more=got.get(i, 0) > want)
                return


FMONITORS.update({"C10": [C10], "C15": [C15], "C16": [C16]})


# ------------------------------------------------------------------------------------------- C17
class C17(FMonitor):
    prop = "C17"

    def __init__(self, led):
        self.last_t = 0.0
        self.cls = {}     # node id -> tuple of class names active since last_t
        self.acc = collections.defaultdict(lambda: collections.Counter())
        self.snapshot(led)

    def classes(self, led, nid, n):
        now = led.env.now
        tn = tname(n)
        if tn == "Machine":
            if now < n.node_setup_time - EPS:
                return ("SETUP_STATE",)
            p = b = 0
            for k, (tp, it, idx) in enumerate(led.pulls.get(nid, [])):
                if led.loc.get(id(it)) == ("node", nid):
                    d = machine_delay(led, n, nid, k)
                    if d is None:
                        return None
                    if now < tp + d:
                        p += 1
                    else:
                        b += 1
            out = []
            if p == 0 and b == 0:
                out.append("IDLE_STATE")
            if p > 0:
                out.append("ATLEAST_ONE_PROCESSING_STATE")
            if p == 0 and b > 0:
                out.append("ALL_ACTIVE_BLOCKED_STATE")
            if p > 0 and b == 0:
                out.append("ALL_ACTIVE_PROCESSING_STATE")
            if b > 0:
                out.append("ATLEAST_ONE_BLOCKED_STATE")
            return tuple(out)
        if tn == "Source":
            if now < n.node_setup_time - EPS:
                return ("SETUP_STATE",)
            held = any(led.loc[id(it)] == ("source", nid) for it in led.items)
            return ("BLOCKED_STATE",) if held else ("GENERATING_STATE",)
        if tn == "Sink":
            return ("COLLECTING_STATE",)
        if tn == "Splitter":
            if now < n.node_setup_time - EPS:
                return ("SETUP_STATE",)
            pulls = [(t, it) for (t, it, idx) in led.pulls.get(nid, []) if getattr(it, "flow_item_type", "") == "Pallet"]
            holding = any(l == ("node", nid) for l in led.loc.values())
            if not holding or not pulls:
                return ("IDLE_STATE",)
            k = len(pulls) - 1
            draws = led.draws.get("pd:" + nid)
            d = draws[k][1] if draws is not None and k < len(draws) else (n.processing_delay if isinstance(n.processing_delay, (int, float)) else None)
            if d is None:
                return None
            return ("PROCESSING_STATE",) if now < pulls[k][0] + d else ("BLOCKED_STATE",)
        return None

    def snapshot(self, led):
        for nid, n in led.nodes.items():
            self.cls[nid] = self.classes(led, nid, n)

    def flush(self, led, t):
        dt = t - self.last_t
        if dt > 0:
            for nid, c in self.cls.items():
                if c is None:
                    self.acc[nid]["?"] += dt
                else:
                    for x in c:
                        self.acc[nid][x] += dt
        self.last_t = t

    def on_instant_end(self, led):
        self.flush(led, led.env.now)
        self.snapshot(led)

    def on_finish(self, led, T):
        self.flush(led, T)
        tol = 1e-9 * max(1.0, T)
        for nid, n in led.nodes.items():
            tn = tname(n)
            try:
                n.update_final_state_time(T)
            except BaseException as e:  # noqa
                led.V("C17", "finalisation-succeeds", "%s.update_final_state_time(%s) raised %s: %s" % (nid, T, type(e).__name__, e),
                      node=tn, exc=type(e).__name__)
                continue
            tot = n.stats["total_time_spent_in_states"]
            neg = {k: v for k, v in tot.items() if v < -tol}
            if neg:
                led.V("C17", "non-negative", "%s has negative state totals %s" % (nid, neg), node=tn)
                continue
            if tn == "Machine":
                g1 = sum(tot[k] for k in ("SETUP_STATE", "IDLE_STATE", "ATLEAST_ONE_PROCESSING_STATE", "ALL_ACTIVE_BLOCKED_STATE"))
                g2 = sum(tot[k] for k in ("SETUP_STATE", "IDLE_STATE", "ALL_ACTIVE_PROCESSING_STATE", "ATLEAST_ONE_BLOCKED_STATE"))
                occ = sum(n.time_per_work_occupancy)
                for nm, v in (("setup+idle+atleast_one_processing+all_active_blocked", g1),
                              ("setup+idle+all_active_processing+atleast_one_blocked", g2), ("worker-occupancy histogram", occ)):
                    if abs(v - T) > tol:
                        led.V("C17", "totals-add-up-to-T", "%s: %s = %r, T = %r (%s)" % (nid, nm, v, T, dict(tot)), node=tn, group=nm[:12])
                        break
                else:
                    self.compare(led, nid, n, tot, T, tol)
            else:
                s = sum(tot.values())
                if abs(s - T) > tol:
                    led.V("C17", "totals-add-up-to-T", "%s: state totals %s add up to %r, T = %r" % (nid, dict(tot), s, T), node=tn, group="all")
                    continue
                self.compare(led, nid, n, tot, T, tol)
                if tn == "Combiner":
                    # every pallet that left the combiner was processed for its drawn delay: at least that much is processing time
                    draws = [v for (t, v) in led.draws.get("pd:" + nid, [])]
                    done = len(led.pushes.get(nid, []))
                    need = sum(draws[:done])
                    if tot.get("PROCESSING_STATE", 0.0) < need - tol:
                        led.V("C17", "totals-reflect-activity", "%s finished %d pallet(s) with processing delays %s but charges only %r to PROCESSING_STATE (stats %s)"
                              % (nid, done, draws[:done], tot.get("PROCESSING_STATE", 0.0), dict(tot)), node=tn, state="PROCESSING_STATE", more=False)

    def compare(self, led, nid, n, tot, T, tol):
        tn = tname(n)
        mine = self.acc[nid]
        if "?" in mine or self.cls.get(nid) is None:
            return
        for k in tot:
            if abs(tot[k] - mine.get(k, 0.0)) > tol:
                led.V("C17", "totals-reflect-activity", "%s charges %r to %s, measured %r (all: stats %s, measured %s)"
                      % (nid, tot[k], k, mine.get(k, 0.0), dict(tot), dict(mine)), node=tn, state=k, more=tot[k] > mine.get(k, 0.0))
                return


# ------------------------------------------------------------------------------------------- C18
AVG_KEYS = {"Buffer": ("update_final_buffer_avg_content", "time_averaged_num_of_items_in_buffer"),
            "Fleet": ("update_final_fleet_avg_content", "time_averaged_num_of_items_in_fleet"),
            "ConveyorBelt": ("update_final_conveyor_avg_content", "time_averaged_num_of_items_in_conveyor")}


class C18(FMonitor):
    prop = "C18"

    def on_instant_end(self, led):
        # the non-blocking branches count an item one kernel step after its put: compare once the instant is over
        self.counters(led)

    def counters(self, led):
        for nid, n in led.nodes.items():
            tn = tname(n)
            st = n.stats
            if tn == "Source":
                made = sum(1 for e in led.events if e[1] == "create" and e[3] == nid)
                if st["num_item_generated"] != made:
                    led.V("C18", "generated-counter", "%s reports %r generated, %d created" % (nid, st["num_item_generated"], made), node=tn)
            if "num_item_processed" in st:
                pushed = len(led.pushes.get(nid, []))
                if st["num_item_processed"] != pushed:
                    led.V("C18", "processed-counter", "%s reports %r processed, %d pushed downstream" % (nid, st["num_item_processed"], pushed),
                          node=tn, more=st["num_item_processed"] > pushed)
            if "num_item_discarded" in st:
                d = sum(1 for x in led.discards if x[1] == nid)
                # items the node let go of without pushing, packing or counting them were dropped all the same
                held = led.held_by_processes(n)
                lost = [it for it in led.items if led.loc[id(it)] in (("node", nid), ("source", nid)) and id(it) not in held]
                if st["num_item_discarded"] != d + len(lost):
                    led.V("C18", "discarded-counter", "%s reports %r discarded, %d dropped%s" % (nid, st["num_item_discarded"], d + len(lost),
                          " (%d of them without touching the counter: %s)" % (len(lost), [it.id for it in lost[:4]]) if lost else ""), node=tn)
            if tn == "Sink":
                got = len(led.pulls.get(nid, []))
                if st["num_item_received"] != got:
                    led.V("C18", "received-counter", "%s reports %r received, %d absorbed" % (nid, st["num_item_received"], got), node=tn)
                cyc = sum(t - it.timestamp_creation for (t, it, idx) in led.pulls.get(nid, []) if it.timestamp_creation is not None)
                if abs(st["total_cycle_time"] - cyc) > 1e-9 * max(1.0, abs(cyc)):
                    led.V("C18", "cycle-time", "%s total_cycle_time %r, sum of reception - creation %r" % (nid, st["total_cycle_time"], cyc), node=tn)

    def on_finish(self, led, T):
        self.counters(led)
        tol = 1e-9 * max(1.0, T)
        for eid, e in led.edges.items():
            ak = AVG_KEYS.get(tname(e))
            if ak is None or T <= 0:
                continue
            try:
                getattr(e, ak[0])(T)
            except BaseException as ex:  # noqa
                led.V("C18", "time-average-finalises", "%s.%s(%s) raised %s: %s" % (eid, ak[0], T, type(ex).__name__, ex), edge=tname(e))
                continue
            integ, level, last = 0.0, 0, 0.0
            for (t, d) in led.occ_hist.get(eid, []):
                integ += level * (t - last)
                last = t
                level += d
            integ += level * (T - last)
            want = integ / T
            have = e.stats[ak[1]]
            if abs(have - want) > tol:
                led.V("C18", "time-averaged-occupancy", "%s reports time-averaged occupancy %r, integral of true occupancy / T = %r" % (eid, have, want),
                      edge=tname(e), more=have > want)
        first_put = {}
        created = {}
        for (t, kind, eid, nid, iid, x) in led.events:
            if kind == "create":
                created[iid] = t
            elif kind == "put" and iid not in first_put:
                first_put[iid] = t
        for it in led.items:
            ts = it.timestamp_creation
            if ts is None:
                continue
            if ts < created.get(it.id, 0) - tol or ts > first_put.get(it.id, INF) + tol:
                led.V("C18", "timestamps-monotone", "%s: creation stamp %r outside [created %r, first put %r]" % (it.id, ts, created.get(it.id), first_put.get(it.id)))
                break
            if it.timestamp_node_exit is not None and it.timestamp_node_exit < ts - tol:
                led.V("C18", "timestamps-monotone", "%s: node exit stamp %r before creation stamp %r" % (it.id, it.timestamp_node_exit, ts))
                break
            if it.timestamp_node_entry is not None and it.timestamp_node_entry < ts - tol:
                led.V("C18", "timestamps-monotone", "%s: node entry stamp %r before creation stamp %r" % (it.id, it.timestamp_node_entry, ts))
                break


FMONITORS.update({"C17": [C17], "C18": [C18], "C19": [], "C20": []})


# ------------------------------------------------------------------------------------------- C01 / C06 in whole factories
class C01F(FMonitor):
    prop = "C01"

    def on_step(self, led):
        for eid, e in led.edges.items():
            held = led.held(e)
            g = len(led.live_tokens(e, "p", "granted"))
            if held + g > e.capacity:
                led.V("C01", "held+granted<=capacity", "edge %s holds %d item(s) and has %d granted unused space reservation(s), capacity %d (t=%s)"
                      % (eid, held, g, e.capacity, led.env.now), edge=tname(e), factory=True)
                return
            real = len(container(e))
            if real > e.capacity:
                led.V("C01", "occupancy<=capacity", "edge %s contains %d items, capacity %d" % (eid, real, e.capacity), edge=tname(e), factory=True)
                return


class C06F(FMonitor):
    """per FIFO edge: items leave in the order in which they became available (nodes use a granted reservation at once)"""
    prop = "C06"

    def __init__(self, led):
        self.t_ready = {}
        self.seq = {}
        self.n = 0
        self.gets_seen = 0
        self.puts_seen = 0
        self.on_edge = collections.defaultdict(list)

    def on_step(self, led):
        ev = led.events
        # replay new put / get events in order, sampling readiness after each kernel step
        for (t, kind, eid, nid, iid, x) in ev[self.puts_seen:]:
            if kind == "put":
                self.n += 1
                self.seq[iid] = self.n
                self.on_edge[eid].append(iid)
            elif kind == "get":
                e = led.edges[eid]
                if getattr(e, "mode", "FIFO") == "FIFO" and iid in self.on_edge[eid]:
                    mine = (self.t_ready.get(iid, t), self.seq.get(iid, 0))
                    for other in self.on_edge[eid]:
                        if other == iid or other not in self.t_ready:
                            continue
                        if self.t_ready[other] < mine[0] - EPS:
                            led.V("C06", "fifo-per-edge", "%s handed out %s (available since %s) while %s has been available since %s"
                                  % (eid, iid, mine[0], other, self.t_ready[other]), edge=tname(e), factory=True)
                            break
                if iid in self.on_edge[eid]:
                    self.on_edge[eid].remove(iid)
                self.t_ready.pop(iid, None)
        self.puts_seen = len(ev)
        for eid, e in led.edges.items():
            for it in ready(e):
                self.t_ready.setdefault(it.id, led.env.now)


class C14F(FMonitor):
    """whole factories: a fleet hands its items out batch by batch (earlier availability first) and, within a batch, in loading
    order -- also when dozens of items have passed (item names with more digits, long lists)"""
    prop = "C14"

    def __init__(self, led):
        self.t_ready = {}
        self.seq = {}
        self.n = 0
        self.seen = 0
        self.on_edge = collections.defaultdict(list)

    def on_step(self, led):
        ev = led.events
        for (t, kind, eid, nid, iid, x) in ev[self.seen:]:
            e = led.edges.get(eid)
            if e is None or tname(e) != "Fleet":
                continue
            if kind == "put":
                self.n += 1
                self.seq[iid] = self.n
                self.on_edge[eid].append(iid)
            elif kind == "get" and iid in self.on_edge[eid]:
                mine = (self.t_ready.get(iid, t), self.seq.get(iid, 0))
                for other in self.on_edge[eid]:
                    if other == iid or other not in self.t_ready:
                        continue
                    o = (self.t_ready[other], self.seq[other])
                    if o[0] < mine[0] - EPS or (abs(o[0] - mine[0]) <= EPS and o[1] < mine[1]):
                        led.V("C14", "d-loading-order", "fleet %s handed out %s (loaded %d-th, available since %s) while %s (loaded %d-th, available since %s) was still waiting"
                              % (eid, iid, mine[1], mine[0], other, o[1], o[0]), factory=True, same_batch=abs(o[0] - mine[0]) <= EPS)
                        break
                self.on_edge[eid].remove(iid)
                self.t_ready.pop(iid, None)
        self.seen = len(ev)
        for eid, e in led.edges.items():
            if tname(e) == "Fleet":
                for it in ready(e):
                    self.t_ready.setdefault(it.id, led.env.now)


class C12F(FMonitor):
    """whole factories, necessary conditions only (wall-clock): on every conveyor of the configuration items leave in entry order,
    never less than one slot time / one item length of travel after the previous entry, never sooner than the belt's travel time
    after their own entry, and never more of them than the belt's capacity (geometry taken from the configuration, not from the
    edge object)"""
    prop = "C12"

    def __init__(self, led):
        import math
        self.seen = 0
        self.last_put = {}
        self.t_put = {}
        self.order = collections.defaultdict(list)
        self.geo = {}
        for ed in led.cfg["edges"]:
            if ed["t"] == "sconv":
                tau = ed.get("delay", 1)
                self.geo[ed["id"]] = (tau, ed.get("cap", 2) * tau, ed.get("cap", 2), True, "sconv")
            elif ed["t"] == "cconv":
                il, sp, cl = ed.get("ilen", 1), ed.get("speed", 1), ed.get("clen", 2)
                self.geo[ed["id"]] = (il / sp, cl / sp, int(math.ceil(cl) / il), abs(cl / il - round(cl / il)) < 1e-9, "cconv")

    def on_step(self, led):
        for (t, kind, eid, nid, iid, x) in led.events[self.seen:]:
            g = self.geo.get(eid)
            if g is None:
                continue
            tau, T, cap, mult, ck = g
            e = led.edges[eid]
            if kind == "put":
                prev = self.last_put.get(eid)
                if prev is not None and t - prev[0] < tau - EPS:
                    used = [k for k in led.tokens if k.edge is e and k.side == "p" and k.status == "used" and k.t_end is not None and abs(k.t_end - t) < EPS]
                    pre = any(k.t_grant is not None and k.t_grant <= prev[0] + EPS for k in used)
                    led.V("C12", "entry-spacing", "%s entered %s at %s, %s entered at %s: %.6g apart, one %s is %.6g"
                          % (prev[1], eid, prev[0], iid, t, t - prev[0], "slot time" if ck == "sconv" else "item length of travel", tau),
                          conv=ck, factory=True, reservation_predates_previous_entry=pre, length_multiple_of_item=mult)
                self.last_put[eid] = (t, iid)
                self.t_put[(eid, iid)] = t
                self.order[eid].append(iid)
            elif kind == "get":
                o = self.order[eid]
                if o and o[0] != iid and iid in o:
                    led.V("C12", "leave-in-entry-order", "%s left %s while %s, which entered earlier, is still on it" % (iid, eid, o[0]),
                          conv=ck, factory=True)
                if iid in o:
                    o.remove(iid)
                tp = self.t_put.pop((eid, iid), None)
                if tp is not None and t - tp < T - EPS:
                    led.V("C12", "minimum-travel-time", "%s entered %s at %s and left at %s: %.6g, the belt's travel time is %.6g"
                          % (iid, eid, tp, t, t - tp, T), conv=ck, factory=True, length_multiple_of_item=mult)
        self.seen = len(led.events)
        for eid, (tau, T, cap, mult, ck) in self.geo.items():
            n = led.held(led.edges[eid])
            if n > cap:
                led.V("C12", "capacity", "%d items on %s, capacity %d" % (n, eid, cap), conv=ck, factory=True, length_multiple_of_item=mult)


FMONITORS["C12"] = [C12F]
FMONITORS["C01"] = [C01F]
FMONITORS["C06"] = [C06F]
FMONITORS["C14"] = [C14F]
