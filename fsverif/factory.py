"""Bounded configuration grammar of Engine F (DESIGN §4.1).  Every member is a plain dict that
engine_f.build turns into real nodes and edges."""
import itertools, copy

IAT = [1, 0.5, 2]
PD = [1, 0, 2]
BD = [0, 1]
ND_IAT = [0.3, 0.7]     # non-dyadic row
ND_PD = [0.7, 0.3]


def src(id, n=3, blocking=True, iat=None, kind="call", pol="FIRST_AVAILABLE", flow="item"):
    if isinstance(iat, (int, float)) and not isinstance(iat, bool):
        # a plain number: the library's constant inter-arrival time (the source never runs dry)
        return {"t": "source", "id": id, "iat": iat, "blocking": blocking, "out_pol": pol, "flow": flow}
    return {"t": "source", "id": id, "iat": (kind, iat or IAT, n), "blocking": blocking, "out_pol": pol, "flow": flow}


def mach(id, wc=1, blocking=True, pd=None, kind="call", setup=0, in_pol="FIRST_AVAILABLE", out_pol="FIRST_AVAILABLE"):
    d = pd if pd is not None else PD
    return {"t": "machine", "id": id, "wc": wc, "blocking": blocking, "pd": (kind, d) if isinstance(d, list) else d, "setup": setup,
            "in_pol": in_pol, "out_pol": out_pol}


def sink(id):
    return {"t": "sink", "id": id}


def edge(t, id, s, d, **kw):
    e = {"t": t, "id": id, "src": s, "dst": d}
    e.update(kw)
    return e


def buf(id, s, d, cap=1, delay=0, mode="FIFO"):
    return edge("buffer", id, s, d, cap=cap, delay=delay, mode=mode)


EDGE_KINDS = {
    "bufF": lambda id, s, d, cap: buf(id, s, d, cap=cap, delay=("call", BD)),
    "bufL": lambda id, s, d, cap: buf(id, s, d, cap=cap, delay=("call", BD), mode="LIFO"),
    "buf0": lambda id, s, d, cap: buf(id, s, d, cap=cap, delay=0),
    "bufG": lambda id, s, d, cap: buf(id, s, d, cap=cap, delay=("gen", BD)),
    "fleet": lambda id, s, d, cap: edge("fleet", id, s, d, cap=max(cap, 2), delay=2, transit=1),
    "cconvA": lambda id, s, d, cap: edge("cconv", id, s, d, clen=2, speed=1, ilen=1, acc=1),
    "cconvN": lambda id, s, d, cap: edge("cconv", id, s, d, clen=2, speed=1, ilen=1, acc=0),
    "sconvA": lambda id, s, d, cap: edge("sconv", id, s, d, cap=2, delay=1, acc=1),
    "sconvN": lambda id, s, d, cap: edge("sconv", id, s, d, cap=2, delay=1, acc=0),
}


def line(e1="bufF", e2="buf0", cap1=1, cap2=1, sb=True, mb=True, wc=1, setup=0, n=3, until=14, kind="call",
         iat=None, pd=None, order="nodes_first", drains=False):
    cfg = {"nodes": [src("S", n=n, blocking=sb, iat=iat, kind=kind), mach("M", wc=wc, blocking=mb, setup=setup, pd=pd, kind=kind), sink("K")],
           "edges": [EDGE_KINDS[e1]("E1", "S", "M", cap1), EDGE_KINDS[e2]("E2", "M", "K", cap2)],
           "until": until, "order": order, "family": "line", "tag": "line(%s,%s,c%d%d,sb%d,mb%d,wc%d,su%s,%s,%s)" % (e1, e2, cap1, cap2, sb, mb, wc, setup, kind, order)}
    if drains:
        cfg["drains"] = True
    return cfg


def diamond(in_pol="FIRST_AVAILABLE", out_pol="FIRST_AVAILABLE", wc=1, mb=True, cap=1, sinks=1, n=2, until=14, slow_sink=False,
            order="nodes_first", pd=None, bd=0, ein="buf", eout="buf"):
    nodes = [src("S1", n=n), src("S2", n=n, iat=[1, 2, 0.5]),
             mach("M", wc=wc, blocking=mb, in_pol=in_pol, out_pol=out_pol, pd=pd)]
    edges = [buf("I1", "S1", "M", cap=cap, delay=bd), buf("I2", "S2", "M", cap=cap, delay=bd)]
    if sinks == 1:
        nodes.append(sink("K"))
        edges += [buf("O1", "M", "K", cap=cap), buf("O2", "M", "K", cap=cap)]
    else:
        nodes += [sink("K1"), sink("K2")]
        edges += [buf("O1", "M", "K1", cap=cap), buf("O2", "M", "K2", cap=cap)]
    if slow_sink:
        # congestion: the out-edges feed a slow second machine instead of sinks
        nodes = [x for x in nodes if x["t"] != "sink"] + [mach("M2", pd=[2, 3], in_pol="FIRST_AVAILABLE"), sink("K")]
        edges = edges[:2] + [buf("O1", "M", "M2", cap=cap), buf("O2", "M", "M2", cap=cap), buf("Z", "M2", "K", cap=1)]
    if ein != "buf":
        edges = [EDGE_KINDS[ein](e["id"], e["src"], e["dst"], cap) if e["id"] in ("I1", "I2")[1 if ein.endswith("2") else 0:] else e for e in edges]
    if eout != "buf":
        edges = [EDGE_KINDS[eout](e["id"], e["src"], e["dst"], cap) if e["id"] in ("O1", "O2") else e for e in edges]
    return {"nodes": nodes, "edges": edges, "until": until, "order": order, "family": "diamond",
            "tag": "diamond(%s,%s,wc%d,mb%d,c%d,k%d,slow%d,%s,%s,%s)" % (_p(in_pol), _p(out_pol), wc, mb, cap, sinks, slow_sink, order, ein, eout)}


def _p(p):
    return p if isinstance(p, (str, int)) else "%s%s" % (p[0], "" if len(p) < 2 else len(p[1]))


def series(wc1=1, wc2=1, cap=1, b1=True, b2=True, n=3, until=16, order="nodes_first"):
    return {"nodes": [src("S", n=n), mach("M1", wc=wc1, blocking=b1), mach("M2", wc=wc2, blocking=b2, pd=[2, 1, 0]), sink("K")],
            "edges": [buf("A", "S", "M1", cap=cap), buf("B", "M1", "M2", cap=cap), buf("C", "M2", "K", cap=cap)],
            "until": until, "order": order, "family": "series", "tag": "series(wc%d%d,c%d,b%d%d,%s)" % (wc1, wc2, cap, b1, b2, order)}


def fan(n_out=3, pol="ROUND_ROBIN", node="source", blocking=True, cap=1, n=4, until=12, order="nodes_first", cpd=None):
    """one node with n_out out-edges (policy under test), slow consumers behind them"""
    if node == "source":
        nodes = [src("S", n=n, blocking=blocking, pol=pol)]
        first = "S"
        edges = []
    else:
        nodes = [src("S", n=n), mach("M", blocking=blocking, out_pol=pol, pd=[0, 1])]
        first = "M"
        edges = [buf("I", "S", "M", cap=2)]
    for i in range(n_out):
        nodes.append(mach("C%d" % i, pd=cpd or [1, 2]))
        nodes.append(sink("K%d" % i))
        edges.append(buf("O%d" % i, first, "C%d" % i, cap=cap))
        edges.append(buf("Z%d" % i, "C%d" % i, "K%d" % i, cap=1))
    return {"nodes": nodes, "edges": edges, "until": until, "family": "fan", "order": order,
            "tag": "fan(%s,%d,%s,b%d,c%d,%s)" % (node, n_out, _p(pol), blocking, cap, order)}


def fan_in(n_in=3, pol="ROUND_ROBIN", n=2, until=12, cap=1):
    nodes = [src("S%d" % i, n=n, iat=[1, 2] if i else [1, 0.5]) for i in range(n_in)] + [mach("M", in_pol=pol, pd=[1, 0]), sink("K")]
    edges = [buf("I%d" % i, "S%d" % i, "M", cap=cap) for i in range(n_in)] + [buf("O", "M", "K", cap=1)]
    return {"nodes": nodes, "edges": edges, "until": until, "family": "fan_in", "tag": "fan_in(%d,%s,c%d)" % (n_in, _p(pol), cap)}


def sink_fan_in(n_in=2, n=3, until=12, cap=1, ek="buf0"):
    """a sink with several in-edges; by default the sources deliver in the same instants"""
    nodes = [src("S%d" % i, n=n, iat=[1, 2] if i else [1, 0.5]) for i in range(n_in)] + [sink("K")]
    edges = [EDGE_KINDS[ek]("I%d" % i, "S%d" % i, "K", cap) for i in range(n_in)]
    return {"nodes": nodes, "edges": edges, "until": until, "family": "sink_fan_in", "tag": "sink_fan_in(%d,%s,c%d)" % (n_in, ek, cap)}


def comb_split(recipe=(1, 1), blocking=True, out_pol="FIRST_AVAILABLE", sinks=1, n_pal=2, n_item=3, until=16, cap=2, order="nodes_first",
               sblocking=True, pal_iat=None, item_iat=None):
    recipe = list(recipe)
    nodes = [src("SP", n=n_pal, flow="pallet", iat=pal_iat or [1, 2, 0.5])]
    edges = [buf("P", "SP", "C", cap=cap)]
    for i in range(1, len(recipe)):
        nodes.append(src("SI%d" % i, n=n_item, iat=item_iat or [1, 0.5, 2]))
        edges.append(buf("I%d" % i, "SI%d" % i, "C", cap=cap))
    nodes.append({"t": "combiner", "id": "C", "recipe": recipe, "pd": ("call", [1, 0]), "blocking": blocking})
    nodes.append({"t": "splitter", "id": "X", "pd": ("call", [1, 0]), "blocking": sblocking, "out_pol": out_pol})
    edges.append(buf("CX", "C", "X", cap=1))
    if sinks == 1:
        nodes.append(sink("K"))
        edges.append(buf("XK", "X", "K", cap=1))
    else:
        nodes += [sink("K1"), sink("K2")]
        edges += [buf("XK1", "X", "K1", cap=1), buf("XK2", "X", "K2", cap=1)]
    return {"nodes": nodes, "edges": edges, "until": until, "order": order, "family": "comb_split",
            "tag": "comb_split(%s,b%d%d,%s,k%d,%s)" % (recipe, blocking, sblocking, _p(out_pol), sinks, order)}


# ------------------------------------------------------------------------------------------- families per purpose
def core_lines(tier):
    out = []
    edges = ["bufF", "bufL", "buf0", "bufG", "fleet"]
    for e1 in edges:
        for e2 in (["buf0", "bufF"] if tier == "quick" else edges):
            out.append(line(e1, e2))
    for sb, mb in itertools.product((True, False), repeat=2):
        for wc in (1, 2):
            out.append(line("bufF", "buf0", sb=sb, mb=mb, wc=wc))
            out.append(line("buf0", "bufF", cap1=2, cap2=1, sb=sb, mb=mb, wc=wc, setup=1.5))
    for kind in ("gen", "const"):
        out.append(line("bufF", "buf0", kind=kind if kind != "const" else "call", pd=1 if kind == "const" else None))
    for order in ("edges_first", "reversed"):
        out.append(line("bufF", "buf0", order=order, wc=2))
        out.append(line("fleet", "buf0", order=order))
    out.append(line("bufF", "buf0", iat=ND_IAT, pd=ND_PD, until=7.3))
    out.append(line("buf0", "buf0", iat=ND_IAT, pd=ND_PD, until=7.3, mb=False, sb=False))
    out.append(line("bufF", "buf0", until=0.7))
    out.append(line("bufF", "buf0", until=0.7, setup=1.5))      # finalisation before the set-up period is over
    out.append(line("bufF", "buf0", until=1.5, setup=1.5))      # ... and exactly at its end
    out.append(line("bufF", "buf0", iat=[0, 1], n=4))
    out.append(line("buf0", "bufF", iat=[0, 2], pd=[1, 2], n=3, cap1=2))
    # a fine, non-dyadic time grid (four decimals): nothing in the library may round or truncate simulated time
    out.append(line("bufF", "buf0", iat=[0.1234, 0.7071], pd=[0.3337, 0.25], until=5.4321, n=5))
    out.append(line("buf0", "bufF", iat=[0.7071, 0.1234], pd=[0.25, 0.3337], until=4.3219, n=5, sb=False, mb=False))
    # constant-number inter-arrival times (the commonest way to configure a source), including the default 0 of a blocking source
    for iat, sb, until in ((1, True, 8), (0.5, True, 6), (0.7, False, 6), (0, True, 6), (2, False, 9)):
        c = line("bufF", "buf0", sb=sb, until=until)
        c["nodes"][0] = src("S", blocking=sb, iat=iat)
        c["tag"] = c["tag"][:-1] + ",iat=%s)" % iat
        out.append(c)
    c = diamond(until=8)
    c["nodes"][0] = src("S1", iat=1); c["nodes"][1] = src("S2", iat=1.5)
    c["tag"] = c["tag"][:-1] + ",iat const)"
    out.append(c)
    return out


def congestion(tier):
    out = []
    for wc in (1, 2):
        for b1, b2 in itertools.product((True, False), repeat=2):
            out.append(series(wc1=wc, wc2=1, b1=b1, b2=b2))
    out.append(series(wc1=2, wc2=2, cap=2))
    for order in ("edges_first", "reversed"):
        out.append(series(order=order))
    return out


def diamonds(tier):
    out = []
    pols = ["FIRST_AVAILABLE", "ROUND_ROBIN", "RANDOM", 0, 1, ("call",), ("gen",)]
    for p in pols:
        out.append(diamond(in_pol=p, out_pol="FIRST_AVAILABLE"))
        out.append(diamond(in_pol="FIRST_AVAILABLE", out_pol=p, slow_sink=True))
    for wc in (1, 2):
        for mb in (True, False):
            out.append(diamond(wc=wc, mb=mb, slow_sink=True))
            out.append(diamond(wc=wc, mb=mb, sinks=2))
    for order in ("edges_first", "reversed"):
        out.append(diamond(order=order, slow_sink=True, wc=2))
    out.append(diamond(bd=("call", BD), cap=2))
    for ek in ("cconvA", "sconvA", "cconvN"):
        c = diamond(until=20, n=3)
        c["edges"] = [EDGE_KINDS[ek](e["id"], e["src"], e["dst"], 2) if e["id"] == "I2" else e for e in c["edges"]]
        c["tag"] = c["tag"][:-1] + ",I2=%s)" % ek
        out.append(c)
        c = diamond(until=20, n=3, eout="buf")
        c["edges"] = [EDGE_KINDS[ek](e["id"], e["src"], e["dst"], 2) if e["id"] in ("I1", "O2") else e for e in c["edges"]]
        c["tag"] = c["tag"][:-1] + ",I1,O2=%s)" % ek
        out.append(c)
    # a slow consumer behind a conveyor that is its second in-edge: several items wait at the belt exit when a granted
    # retrieval on the belt is withdrawn
    for ek in ("cconvA", "sconvA"):
        c = diamond(until=26, n=6, pd=[2, 3])
        c["edges"] = [dict(EDGE_KINDS[ek](e["id"], e["src"], e["dst"], 2), **({"clen": 3} if ek == "cconvA" else {"cap": 3})) if e["id"] == "I2" else e
                      for e in c["edges"]]
        c["nodes"][1] = src("S2", n=6, iat=[1, 2])
        c["tag"] = c["tag"][:-1] + ",I2=%s,slow M)" % ek
        out.append(c)
        # ... and with arrivals that coincide only now and then (periods 3 and 2) on a four-slot belt
        c = diamond(until=32, n=8, pd=[2, 1])
        c["edges"] = [dict(EDGE_KINDS[ek](e["id"], e["src"], e["dst"], 2), **({"clen": 4} if ek == "cconvA" else {"cap": 4})) if e["id"] == "I2" else e
                      for e in c["edges"]]
        c["nodes"][0] = src("S1", n=8, iat=[3, 1]); c["nodes"][1] = src("S2", n=12, iat=[2, 1])
        c["tag"] = c["tag"][:-1] + ",I2=%s,periods 3 and 2)" % ek
        out.append(c)
    for ek in ("fleet", "bufF", "bufL"):
        out.append(diamond(ein=ek, until=20, n=3))
        out.append(diamond(ein=ek, until=20, n=3, pd=[2, 3], wc=1))
        out.append(diamond(eout=ek, until=20, slow_sink=True))
    for order in ("edges_first", "reversed"):
        out.append(diamond(order=order, slow_sink=True, wc=1, pd=[0, 1]))
        out.append(diamond(order=order, sinks=2, wc=2))
    out.append(diamond(in_pol="ROUND_ROBIN", out_pol="ROUND_ROBIN", mb=False, slow_sink=True))
    return out


def fans(tier):
    out = []
    for pol in ("ROUND_ROBIN", "RANDOM", "FIRST_AVAILABLE", 2, ("call",), ("gen",)):
        for node in ("source", "machine"):
            for blocking in (True, False):
                out.append(fan(3, pol, node, blocking))
    for pol in ("ROUND_ROBIN", "RANDOM", "FIRST_AVAILABLE", 1, ("call",)):
        out.append(fan_in(3, pol))
    for order in ("reversed", "edges_first"):
        for node in ("source", "machine"):
            out.append(fan(2, "FIRST_AVAILABLE", node, True, order=order, cpd=[2, 1], n=5, until=14))
            out.append(fan(3, "FIRST_AVAILABLE", node, True, order=order, n=5, until=14))
    # sinks with several in-edges (arrivals in the same instant by default)
    out.append(sink_fan_in(2))
    out.append(sink_fan_in(3))
    out.append(sink_fan_in(2, ek="bufF", cap=2))
    out.append(sink_fan_in(2, ek="fleet", until=16))
    return out


def comb_series(r1=(1, 1), r2=(1, 2), until=24, n_pal=2, order="nodes_first", blocking=True):
    """two combiners in series: the second one receives pallets that already carry items"""
    nodes = [src("SP", n=n_pal, flow="pallet", iat=[1, 2]), src("SA", n=3, iat=[1, 0.5]), src("SB", n=5, iat=[1, 0.5]),
             {"t": "combiner", "id": "C1", "recipe": list(r1), "pd": ("call", [1, 0]), "blocking": blocking},
             {"t": "combiner", "id": "C2", "recipe": list(r2), "pd": ("call", [1, 0]), "blocking": blocking}, sink("K")]
    edges = [buf("P", "SP", "C1", cap=2), buf("A", "SA", "C1", cap=2), buf("C12", "C1", "C2", cap=1), buf("B", "SB", "C2", cap=2),
             buf("OUT", "C2", "K", cap=1)]
    return {"nodes": nodes, "edges": edges, "until": until, "order": order, "family": "comb_series",
            "tag": "comb_series(%s,%s,%s,b%d)" % (list(r1), list(r2), order, blocking)}


def comb_fan(out_pol="ROUND_ROBIN", blocking=True, n_out=2, until=20, slow=True, recipe=(1, 1)):
    """combiner with several out-edges (its own out-edge policy under test), slow consumers behind them"""
    nodes = [src("SP", n=4 if blocking else 7, flow="pallet", iat=[1, 0.5]), src("SI", n=6 if blocking else 9, iat=[1, 0.5]),
             {"t": "combiner", "id": "C", "recipe": list(recipe), "pd": ("call", [1, 0]), "blocking": blocking, "out_pol": out_pol}]
    edges = [buf("P", "SP", "C", cap=2), buf("I1", "SI", "C", cap=2)]
    for j in range(n_out):
        if slow:
            nodes += [mach("D%d" % j, pd=[3, 2]), sink("K%d" % j)]
            edges += [buf("O%d" % j, "C", "D%d" % j, cap=1), buf("Z%d" % j, "D%d" % j, "K%d" % j, cap=1)]
        else:
            nodes.append(sink("K%d" % j))
            edges.append(buf("O%d" % j, "C", "K%d" % j, cap=1))
    return {"nodes": nodes, "edges": edges, "until": until, "family": "comb_fan",
            "tag": "comb_fan(%s,b%d,out%d,slow%d)" % (_p(out_pol), blocking, n_out, slow)}


def repack(n_pal=3, until=24):
    """pack, unpack, pack again: the second combiner loads the pallets the splitter emptied with the items they carried before"""
    nodes = [src("SP", n=n_pal, flow="pallet", iat=[1, 2]), src("SI", n=2 * n_pal, iat=[1, 0.5]),
             {"t": "combiner", "id": "C1", "recipe": [1, 2], "pd": ("call", [1, 0]), "blocking": True},
             {"t": "splitter", "id": "X", "pd": ("call", [1, 0]), "blocking": True, "out_pol": ("cycle", [1, 2, 0])},
             {"t": "combiner", "id": "C2", "recipe": [1, 1, 1], "pd": ("call", [1, 0]), "blocking": True}, sink("K")]
    edges = [buf("P", "SP", "C1", cap=2), buf("I", "SI", "C1", cap=2), buf("CX", "C1", "X", cap=1),
             buf("XP", "X", "C2", cap=2), buf("XA", "X", "C2", cap=2), buf("XB", "X", "C2", cap=2), buf("O", "C2", "K", cap=1)]
    return {"nodes": nodes, "edges": edges, "until": until, "family": "repack", "tag": "repack(n%d)" % n_pal}


def comb_split_slow(recipe=(1, 2), out_pol="ROUND_ROBIN", sblocking=False, blocking=True, until=20):
    """splitter feeding two slow machines: its out-edges are full when items and pallets are pushed"""
    c = comb_split(recipe, sinks=2, out_pol=out_pol, sblocking=sblocking, blocking=blocking, until=until, n_pal=3, n_item=6)
    nodes = [x for x in c["nodes"] if x["t"] != "sink"] + [mach("D1", pd=[3, 2]), mach("D2", pd=[3, 4]), sink("K1"), sink("K2")]
    edges = [e for e in c["edges"] if not e["id"].startswith("XK")] + [buf("XK1", "X", "D1", cap=1), buf("XK2", "X", "D2", cap=1),
                                                                     buf("Z1", "D1", "K1", cap=1), buf("Z2", "D2", "K2", cap=1)]
    c["nodes"], c["edges"] = nodes, edges
    c["tag"] = "comb_split_slow(%s,%s,sb%d,b%d)" % (list(recipe), _p(out_pol), sblocking, blocking)
    return c


def pallet_split(in_pol="FIRST_AVAILABLE", n_in=1, n_out=1, sblocking=True, out_pol="FIRST_AVAILABLE", slow=True, until=16, n=3, order="nodes_first",
                 iat=None):
    """pallet sources feed a splitter directly (empty pallets), optionally slow consumers behind it"""
    nodes = [src("SP%d" % i, n=n, flow="pallet", iat=iat or ([1, 0.5] if i == 0 else [1, 2])) for i in range(n_in)]
    edges = [buf("P%d" % i, "SP%d" % i, "X", cap=2) for i in range(n_in)]
    nodes.append({"t": "splitter", "id": "X", "pd": ("call", [1, 0.5]), "blocking": sblocking, "in_pol": in_pol, "out_pol": out_pol})
    for j in range(n_out):
        if slow:
            nodes += [mach("D%d" % j, pd=[3, 2]), sink("K%d" % j)]
            edges += [buf("O%d" % j, "X", "D%d" % j, cap=1), buf("Z%d" % j, "D%d" % j, "K%d" % j, cap=1)]
        else:
            nodes.append(sink("K%d" % j))
            edges.append(buf("O%d" % j, "X", "K%d" % j, cap=1))
    return {"nodes": nodes, "edges": edges, "until": until, "order": order, "family": "pallet_split",
            "tag": "pallet_split(%s,in%d,out%d,sb%d,%s,slow%d,%s)" % (_p(in_pol), n_in, n_out, sblocking, _p(out_pol), slow, order)}


def splitters(tier):
    out = []
    for in_pol in ("FIRST_AVAILABLE", "ROUND_ROBIN", 0, ("call",)):
        out.append(pallet_split(in_pol=in_pol))
        out.append(pallet_split(in_pol=in_pol, sblocking=False))
    for in_pol in ("ROUND_ROBIN", "RANDOM", "FIRST_AVAILABLE", 1, ("gen",)):
        out.append(pallet_split(in_pol=in_pol, n_in=3, n_out=1, slow=False))
        out.append(pallet_split(in_pol=in_pol, n_in=2, n_out=3, slow=False, out_pol="ROUND_ROBIN"))
    out.append(pallet_split(in_pol="ROUND_ROBIN", n_in=2, n_out=2, out_pol="FIRST_AVAILABLE", order="reversed"))
    out.append(pallet_split(iat=[0, 1], slow=True))
    for ek in ("cconvA", "sconvA", "fleet"):
        for pol in ("FIRST_AVAILABLE", "ROUND_ROBIN"):
            c = pallet_split(in_pol=pol, n_in=2, n_out=1, slow=False, until=24, n=6)
            c["edges"] = [EDGE_KINDS[ek](e["id"], e["src"], e["dst"], 2) if e["id"] == "P1" else e for e in c["edges"]]
            c["tag"] = c["tag"][:-1] + ",P1=%s)" % ek
            out.append(c)
    # splitter fed by a combiner, non-default in-edge policy on the splitter
    for pol in ("ROUND_ROBIN", 0):
        c = comb_split_slow((1, 2), out_pol="FIRST_AVAILABLE", sblocking=True)
        for nd in c["nodes"]:
            if nd["t"] == "splitter":
                nd["in_pol"] = pol
        c["tag"] += "+in_%s" % _p(pol)
        out.append(c)
    return out


def comb_blocked(setup=6, n_pal=3, until=24, order="nodes_first", cpd=None, dpd=None):
    """combiner whose out-edge stays full for a while (consumer still in its set-up period), ingredients waiting upstream"""
    nodes = [src("SP", n=n_pal, flow="pallet", iat=[0.5, 1]), src("SI", n=n_pal, iat=[0.5, 1]),
             {"t": "combiner", "id": "C", "recipe": [1, 1], "pd": ("call", cpd or [2, 1]), "blocking": True},
             mach("D", pd=dpd or [0.5, 1], setup=setup), sink("K")]
    edges = [buf("P", "SP", "C", cap=3), buf("I", "SI", "C", cap=3), buf("OUT", "C", "D", cap=1), buf("Z", "D", "K", cap=2)]
    return {"nodes": nodes, "edges": edges, "until": until, "order": order, "family": "comb_blocked",
            "tag": "comb_blocked(su%s,n%d,%s)" % (setup, n_pal, order)}


def combiners(tier):
    out = []
    out.append(comb_blocked())
    out.append(comb_blocked(setup=9, n_pal=4, cpd=[3, 1], dpd=[0.5]))
    out.append(comb_blocked(order="reversed"))
    for recipe in ((1, 1), (1, 2), (1, 1, 1), (1, 0)):
        out.append(comb_split(recipe))
    out.append(comb_split((1, 2), sinks=2, out_pol="ROUND_ROBIN"))
    out.append(comb_split((1, 1), sinks=2, out_pol="FIRST_AVAILABLE"))
    out.append(comb_split((1, 2), blocking=False, sblocking=False))
    out.append(comb_split((1, 1), order="edges_first"))
    out.append(comb_split((1, 1), order="reversed"))
    out.append(comb_split((1, 2), pal_iat=[3, 1], item_iat=[0.5, 1]))
    out.append(comb_split((1, 1, 1), pal_iat=[0.5, 1], item_iat=[2, 1], until=20))
    # three ingredient reservations outstanding for one pallet (a granted / waiting / granted pattern exists)
    out.append(comb_split((1, 2, 1)))
    out.append(comb_split((1, 1, 1, 1), n_item=2))
    out.append(comb_split((1, 1, 2), pal_iat=[0.5, 1], item_iat=[1, 2], until=20))
    for pol in ("ROUND_ROBIN", "FIRST_AVAILABLE", 1, ("call",), "RANDOM"):
        for sb in (False, True):
            out.append(comb_split_slow((1, 2), out_pol=pol, sblocking=sb))
    out.append(comb_split_slow((1, 1), out_pol="ROUND_ROBIN", sblocking=False, blocking=False))
    for pol in ("ROUND_ROBIN", "FIRST_AVAILABLE", 1, ("call",), ("gen",), "RANDOM"):
        for b in (True, False):
            out.append(comb_fan(pol, b))
    out.append(comb_fan("FIRST_AVAILABLE", True, n_out=3))
    out.append(comb_fan("ROUND_ROBIN", True, n_out=3, slow=False))
    out.append(repack())
    # several ingredients from one conveyor / fleet in-edge: two retrieval reservations granted on that edge before the first get
    for ek in ("sconvA", "cconvA", "fleet", "bufF"):
        c = comb_split((1, 2), pal_iat=[8, 3], item_iat=[1, 0.5], n_pal=3, n_item=7, until=30)
        c["edges"] = [EDGE_KINDS[ek](e["id"], e["src"], e["dst"], 3) if e["id"] == "I1" else e for e in c["edges"]]
        if ek == "sconvA":
            for e in c["edges"]:
                if e["id"] == "I1":
                    e["cap"] = 4
        c["tag"] = c["tag"][:-1] + ",I1=%s,pallets scarce)" % ek
        out.append(c)
    out.append(comb_series())
    out.append(comb_series((1, 2), (1, 1)))
    out.append(comb_series(order="reversed"))
    out.append(comb_series(blocking=False))
    return out


def conveyor_lines(tier):
    out = []
    # a four-slot belt in front of a slow machine, arrival and service periods that coincide now and then: items wait at the
    # exit, new ones arrive in the instant the consumer becomes free
    for ek in ("cconvN", "cconvA", "sconvN", "sconvA"):
        c = line(ek, "buf0", n=6, until=40, iat=[4.5, 5, 0.5], pd=[5, 4.5])
        if ek.startswith("cconv"):
            c["edges"][0]["clen"] = 4
        else:
            c["edges"][0]["cap"] = 4
        c["tag"] = c["tag"][:-1] + ",four slots,periods 4.5 and 5)"
        out.append(c)
    # two conveyors in a row, the second one slower than the first: its own entry spacing must hold for items that already travelled
    for e1, e2 in (("sconvA", "sconvA"), ("cconvA", "sconvA"), ("sconvA", "cconvA"), ("sconvN", "sconvN")):
        c = line(e1, e2, n=5, until=18, pd=[0.25, 0])
        if e1.startswith("sconv"):
            c["edges"][0]["delay"] = 0.5
        if e2.startswith("sconv"):
            c["edges"][1]["delay"] = 2; c["edges"][1]["cap"] = 3
        else:
            c["edges"][1]["clen"] = 6; c["edges"][1]["ilen"] = 2; c["nodes"][0]["ilen"] = 2   # items as long as the belt's item length
        c["tag"] = c["tag"][:-1] + ",slow second belt)"
        out.append(c)
    for e in ("cconvA", "cconvN", "sconvA", "sconvN"):
        out.append(line(e, "buf0"))
        out.append(line("buf0", e))
        out.append(line(e, e))
        out.append(line(e, "buf0", wc=2, n=4))
        out.append(line("buf0", e, wc=2, cap1=2, n=4))
        out.append(line(e, "buf0", sb=False))
        out.append(line("buf0", e, mb=False))
        out.append(line(e, e, order="edges_first"))
        out.append(line(e, "buf0", iat=[0, 1], n=4))
    return out


def fleet_dense(tier):
    """fleets with overlapping trips and batches of several items"""
    out = []
    for cap, delay, transit, iat in ((4, 1, 1.5, [0.5, 0.3]), (3, 1, 1, [0.5, 1]), (6, 1, 1.5, [0.3, 0.5])):
        c = {"nodes": [src("S", n=8, iat=iat), sink("K")],
             "edges": [edge("fleet", "F", "S", "K", cap=cap, delay=delay, transit=transit)], "until": 14, "family": "fleet_dense",
             "tag": "fleet_dense(c%d,d%s,t%s)" % (cap, delay, transit)}
        out.append(c)
        c2 = {"nodes": [src("S", n=8, iat=iat), mach("M", wc=2, pd=[1, 0.5]), sink("K")],
              "edges": [edge("fleet", "F", "S", "M", cap=cap, delay=delay, transit=transit), buf("O", "M", "K", cap=2)], "until": 14,
              "family": "fleet_dense", "tag": "fleet_dense_m(c%d,d%s,t%s)" % (cap, delay, transit)}
        out.append(c2)
    # the load that fills a small fleet arrives in the very instant its waiting period ends (feeder period a multiple of the
    # fleet's delay, explicit out-edge policy so that the put is not deferred by a kernel hop)
    for cap in (1, 2):
        for pol in (0, "ROUND_ROBIN", "FIRST_AVAILABLE"):
            for iat in (2, [2, 1]):
                out.append({"nodes": [src("S", n=6, iat=iat, pol=pol), sink("K")],
                            "edges": [edge("fleet", "F", "S", "K", cap=cap, delay=1, transit=0.25)], "until": 13, "family": "fleet_dense",
                            "tag": "fleet_tick(c%d,%s,iat%s)" % (cap, _p(pol), "const2" if iat == 2 else "2|1")})
    # a slow consumer behind the fleet: delivered items wait in the fleet when the run ends
    for until in (10.5, 21.3):
        out.append({"nodes": [src("S", n=6, iat=[1, 2]), mach("M", pd=[6, 5]), sink("K")],
                    "edges": [edge("fleet", "F", "S", "M", cap=2, delay=3, transit=0.5), buf("O", "M", "K", cap=1)], "until": until,
                    "family": "fleet_dense", "tag": "fleet_slow_consumer(T%s)" % until})
    return out


def mixed_out(first="buf", n_fleet=1, wc=2, until=16):
    """blocking FIRST_AVAILABLE machine, several workers finishing together, a small fleet among its out-edges but not the first:
    the winner of the first edge withdraws its granted reservation on the fleet, the loser must get that place at once"""
    nodes = [src("S%d" % i, n=4, iat=[1, 2]) for i in range(wc)] + [mach("M", wc=wc, blocking=True, pd=[1, 2])]
    edges = [buf("I%d" % i, "S%d" % i, "M", cap=1) for i in range(wc)]
    k = 0
    if first == "buf":
        nodes += [mach("D", pd=[6, 5]), sink("K0")]
        edges += [buf("O0", "M", "D", cap=1), buf("Z", "D", "K0", cap=1)]
        k = 1
    for j in range(n_fleet):
        nodes.append(sink("K%d" % (k + j)))
        edges.append(edge("fleet", "O%d" % (k + j), "M", "K%d" % (k + j), cap=1, delay=1, transit=0.5))
    if first != "buf":
        nodes += [sink("KB")]
        edges += [buf("OB", "M", "KB", cap=1)]
    return {"nodes": nodes, "edges": edges, "until": until, "family": "nonblocking_fleet",
            "tag": "mixed_out(%s first,%d fleet,wc%d)" % (first, n_fleet, wc)}


def nonblocking_fleet(tier):
    """non-blocking machine with several workers finishing together in front of small fleets / buffers"""
    out = [mixed_out("buf", 1), mixed_out("fleet", 2), mixed_out("buf", 2, wc=3)]
    # non-blocking source with an explicit policy in front of a fleet whose vehicles are away for a while
    for pol in (0, "FIRST_AVAILABLE"):
        out.append({"nodes": [src("S", n=9, blocking=False, iat=[1, 0.5], pol=pol), sink("K")],
                    "edges": [edge("fleet", "F", "S", "K", cap=3, delay=2, transit=1.5)], "until": 14, "family": "nonblocking_fleet",
                    "tag": "nb_source_fleet(%s)" % _p(pol)})
    for pol in ("ROUND_ROBIN", 0, "FIRST_AVAILABLE", ("call",)):
        for fcap, wc in ((1, 2), (2, 3)):
            for ek in ("fleet", "buffer"):
                nodes = [src("S%d" % i, n=3, iat=[1, 2]) for i in range(wc)] + [mach("M", wc=wc, blocking=False, out_pol=pol, pd=[1, 2])]
                edges = [buf("I%d" % i, "S%d" % i, "M", cap=1) for i in range(wc)]
                for j in range(2):
                    nodes.append(sink("K%d" % j))
                    if ek == "fleet":
                        edges.append(edge("fleet", "O%d" % j, "M", "K%d" % j, cap=fcap, delay=3, transit=1))
                    else:
                        nodes[-1] = mach("D%d" % j, pd=[4, 3])
                        nodes.append(sink("K%d" % j))
                        edges.append(buf("O%d" % j, "M", "D%d" % j, cap=fcap))
                        edges.append(buf("Z%d" % j, "D%d" % j, "K%d" % j, cap=1))
                out.append({"nodes": nodes, "edges": edges, "until": 12, "family": "nonblocking_fleet",
                            "tag": "nb_multi(%s,%s%d,wc%d)" % (_p(pol), ek, fcap, wc)})
    return out


def draining(tier):
    """finite input and a long horizon: every generated item must end up received or counted as discarded"""
    out = []
    for e1, e2 in (("bufF", "buf0"), ("fleet", "bufF"), ("bufL", "fleet"), ("sconvA", "buf0"), ("cconvA", "buf0"), ("buf0", "cconvN")):
        for sb, mb in ((True, True), (False, True), (True, False)):
            if not sb and e1 in ("sconvA", "cconvA") or not mb and e2 == "cconvN":
                continue   # KF1: can_put of conveyors
            out.append(line(e1, e2, sb=sb, mb=mb, until=60, drains=True))
    for c in (diamond(until=60), diamond(in_pol="ROUND_ROBIN", out_pol="ROUND_ROBIN", until=60), series(until=60), series(wc1=2, b2=False, until=60),
              comb_split((1, 1), until=60, n_pal=2, n_item=2), comb_split((1, 2), sinks=2, out_pol="ROUND_ROBIN", until=60, n_pal=2, n_item=4),
              pallet_split(until=60), fan(3, "ROUND_ROBIN", "machine", True, until=60), fan(3, "FIRST_AVAILABLE", "machine", True, until=60),
              fan_in(3, "FIRST_AVAILABLE", until=60), fan_in(3, "ROUND_ROBIN", until=60), fan_in(2, "FIRST_AVAILABLE", n=3, until=60),
              sink_fan_in(2, until=60), sink_fan_in(3, until=60)):
        c["drains"] = True
        c["tag"] += "+drains"
        out.append(c)
    return out


def discards(tier):
    """non-blocking nodes with an explicit out-edge policy in front of a slow consumer: several items are dropped in one run"""
    out = []
    for pol in (0, "ROUND_ROBIN", ("call",), "RANDOM", "FIRST_AVAILABLE"):
        c = {"nodes": [src("S", n=6, blocking=False, iat=[1, 0.5], pol=pol), mach("M", pd=[3, 4]), sink("K")],
             "edges": [buf("E1", "S", "M", cap=1), buf("E2", "M", "K", cap=1)], "until": 14, "family": "discards",
             "tag": "discards(source,%s)" % _p(pol)}
        out.append(c)
        c = {"nodes": [src("S", n=6, iat=[1, 0.5]), mach("M1", blocking=False, out_pol=pol, pd=[0.5, 0]), mach("M2", pd=[3, 4]), sink("K")],
             "edges": [buf("A", "S", "M1", cap=1), buf("B", "M1", "M2", cap=1), buf("C", "M2", "K", cap=1)], "until": 14,
             "family": "discards", "tag": "discards(machine,%s)" % _p(pol)}
        out.append(c)
    # the blocking counterparts: a node with an explicit out-edge policy that is held up for a while by a slow consumer
    for pol in (0, "ROUND_ROBIN", ("call",)):
        c = {"nodes": [src("S", n=5, blocking=True, iat=[1, 0.5], pol=pol), mach("M", pd=[3, 4]), sink("K")],
             "edges": [buf("E1", "S", "M", cap=1), buf("E2", "M", "K", cap=1)], "until": 14, "family": "discards",
             "tag": "held_up(source,%s)" % _p(pol)}
        out.append(c)
        c = {"nodes": [src("S", n=5, iat=[1, 0.5]), mach("M1", blocking=True, out_pol=pol, pd=[0.5, 0]), mach("M2", pd=[3, 4]), sink("K")],
             "edges": [buf("A", "S", "M1", cap=1), buf("B", "M1", "M2", cap=1), buf("C", "M2", "K", cap=1)], "until": 14,
             "family": "discards", "tag": "held_up(machine,%s)" % _p(pol)}
        out.append(c)
    return out


def long_runs(tier):
    """the same shapes with many items and a long horizon, explored with at most one deviation: behaviour that only shows after
    dozens of items (growing lists, wrapped cursors, counters) on and next to the default schedule"""
    out = []
    n, T = (30, 70) if tier == "quick" else (60, 140)
    c = line("bufF", "buf0", n=n, until=T); out.append(c)
    c = line("fleet", "buf0", n=n, until=T, wc=2); out.append(c)
    c = line("buf0", "bufF", n=n, until=T, sb=False, mb=False, pd=[2, 3]); out.append(c)
    c = line("cconvA", "buf0", n=n, until=T); out.append(c)
    c = diamond(in_pol="ROUND_ROBIN", out_pol="ROUND_ROBIN", n=n // 2, until=T, sinks=2); out.append(c)
    c = diamond(n=n // 2, until=T, wc=2, slow_sink=True); out.append(c)
    c = fan(3, "ROUND_ROBIN", "machine", True, n=n, until=T); out.append(c)
    c = fan(3, "FIRST_AVAILABLE", "source", False, n=n, until=T); out.append(c)
    c = fan_in(3, "ROUND_ROBIN", n=n // 3, until=T); out.append(c)
    c = comb_split((1, 2), n_pal=n // 2, n_item=n, until=T, sinks=2, out_pol="ROUND_ROBIN"); out.append(c)
    c = comb_series(n_pal=n // 2, until=T)
    c["nodes"][1] = src("SA", n=n // 2, iat=[1, 0.5]); c["nodes"][2] = src("SB", n=n, iat=[1, 0.5])
    out.append(c)
    c = pallet_split(in_pol="ROUND_ROBIN", n_in=2, n_out=2, slow=True, n=n // 3, until=T, out_pol="ROUND_ROBIN"); out.append(c)
    for c in discards(tier):
        # starved lines: dozens of drops by one node
        if c["tag"] in ("discards(source,FIRST_AVAILABLE)", "discards(source,ROUND_ROBIN)", "discards(machine,FIRST_AVAILABLE)", "discards(machine,0)"):
            c["nodes"][0] = src("S", n=n, blocking=c["nodes"][0]["blocking"], iat=[1, 0.5], pol=c["nodes"][0]["out_pol"])
            c["until"] = T
            out.append(c)
    c = comb_fan("FIRST_AVAILABLE", True); c["nodes"][0] = src("SP", n=n // 2, flow="pallet", iat=[1, 0.5]); c["nodes"][1] = src("SI", n=n // 2, iat=[1, 0.5])
    c["until"] = T; out.append(c)
    c = {"nodes": [src("S", n=n, iat=[1, 0.5]), sink("K")], "edges": [edge("fleet", "F", "S", "K", cap=4, delay=2.5, transit=0.5)], "until": T,
         "family": "long_runs", "tag": "fleet_to_sink(c4,d2.5,t0.5)"}
    out.append(c)
    for c in out:
        c["tag"] += "+long%d" % n
        c["bound"] = 1
        c["family"] = "long_runs"
    return out


FAMILIES = {"long_runs": long_runs, "discards": discards, "fleet_dense": fleet_dense, "nonblocking_fleet": nonblocking_fleet, "draining": draining, "splitters": splitters, "lines": core_lines, "congestion": congestion, "diamonds": diamonds, "fans": fans, "combiners": combiners,
            "conveyors": conveyor_lines}


def invalid_configs(tier):
    """configurations the statement of C20 calls invalid: each must end in an error"""
    out = []

    def base():
        return line("buf0", "buf0", n=2, until=6)
    c = base(); c["edges"][0]["cap"] = 0; c["why"] = "buffer capacity 0"; out.append(c)
    c = base(); c["edges"][1]["cap"] = -1; c["why"] = "buffer capacity -1"; out.append(c)
    c = base(); c["edges"][0]["mode"] = "RANDOM"; c["why"] = "unknown buffer mode"; out.append(c)
    for m in ("fifo", "Lifo", "", None, "FIFO "):
        c = base(); c["edges"][1]["mode"] = m; c["why"] = "buffer mode %r (only 'FIFO' and 'LIFO' are documented)" % (m,); out.append(c)
    c = base(); c["edges"][0]["delay"] = -1; c["why"] = "negative constant buffer delay"; out.append(c)
    c = base(); c["edges"][0]["delay"] = ("call", [-1]); c["why"] = "negative buffer delay from a callable"; out.append(c)
    c = base(); c["nodes"][1]["pd"] = -1; c["why"] = "negative constant processing delay"; out.append(c)
    c = base(); c["nodes"][1]["pd"] = ("gen", [-0.5]); c["why"] = "negative processing delay from a generator"; out.append(c)
    c = base(); c["nodes"][0]["iat"] = 0; c["nodes"][0]["blocking"] = False; c["why"] = "non-blocking source with zero inter-arrival time"; out.append(c)
    for z in (0.0, -0.0, False):
        c = base(); c["nodes"][0]["iat"] = z; c["nodes"][0]["blocking"] = False
        c["why"] = "non-blocking source with zero inter-arrival time given as %r" % (z,); out.append(c)
    c = base(); c["nodes"][0]["iat"] = ("call", [-1], 2); c["why"] = "negative inter-arrival time"; out.append(c)
    c = base(); c["edges"] = c["edges"][:1]; c["nodes"] = c["nodes"][:2]; c["why"] = "machine without out-edge"; out.append(c)
    c = base(); c["edges"] = c["edges"][1:]; c["nodes"] = c["nodes"][1:]; c["why"] = "machine without in-edge"; out.append(c)
    c = base(); c["nodes"].append(sink("K2")); c["why"] = "sink without in-edge"; out.append(c)
    c = base(); c["nodes"].append(src("S2", n=1)); c["why"] = "source without out-edge"; out.append(c)
    for side in ("in_pol", "out_pol"):
        for v in (1, 5, -1):
            c = base(); c["nodes"][1][side] = v; c["why"] = "machine %s constant index %d with one edge" % (side, v); out.append(c)
    c = base(); c["nodes"][0]["out_pol"] = 3; c["why"] = "source constant out-edge index 3 with one edge"; out.append(c)
    c = base(); c["nodes"][1]["out_pol"] = ("call", [2]); c["why"] = "machine out-edge callable answers 2 with one edge"; out.append(c)
    c = base(); c["nodes"][1]["in_pol"] = ("gen", [1]); c["why"] = "machine in-edge generator answers 1 with one edge"; out.append(c)
    c = base(); c["nodes"][0]["out_pol"] = ("call", [1]); c["why"] = "source out-edge callable answers 1 with one edge"; out.append(c)
    # negative answers of user selectors must not wrap around to the last edge
    for why, f in (("source out-edge callable answers -1 with two out-edges", lambda c: c["nodes"][0].__setitem__("out_pol", ("call", [-1]))),
                   ("source out-edge generator answers -2 with two out-edges", lambda c: c["nodes"][0].__setitem__("out_pol", ("gen", [-2])))):
        c = fan(2, "FIRST_AVAILABLE", "source", True, n=3, until=8)
        f(c); c["why"] = why; out.append(c)
    for why, key, val in (("machine out-edge callable answers -1 with two out-edges", "out_pol", ("call", [-1])),
                          ("machine out-edge generator answers -2", "out_pol", ("gen", [-2])),
                          ("machine in-edge callable answers -1 with two in-edges", "in_pol", ("call", [-1])),
                          ("machine in-edge constant 2 with two in-edges", "in_pol", 2),
                          ("machine out-edge constant 2 with two out-edges", "out_pol", 2)):
        c = diamond(until=8)
        for nd in c["nodes"]:
            if nd["id"] == "M":
                nd[key] = val
        c["why"] = why; out.append(c)
    c = base(); c["nodes"][1]["wc"] = 0; c["why"] = "work_capacity 0"; out.append(c)
    c = base(); c["edges"][0] = edge("fleet", "E1", "S", "M", cap=0, delay=2, transit=1); c["why"] = "fleet capacity 0"; out.append(c)
    c = base(); c["edges"][0] = edge("fleet", "E1", "S", "M", cap=2, delay=2, transit=-1); c["why"] = "negative fleet transit delay"; out.append(c)
    c = base(); c["edges"][0] = edge("sconv", "E1", "S", "M", cap=0, delay=1, acc=1); c["why"] = "slotted conveyor capacity 0"; out.append(c)
    # parameters of the wrong kind altogether: whatever the component does with them, the model must not be simulated silently
    c = base(); c["edges"][0]["delay"] = "abc"; c["why"] = "buffer delay of type str"; out.append(c)
    c = base(); c["edges"][0] = edge("fleet", "E1", "S", "M", cap=2, delay="abc", transit=1); c["why"] = "fleet delay of type str"; out.append(c)
    c = base(); c["nodes"][1]["pd"] = "slow"; c["why"] = "processing delay of type str"; out.append(c)
    c = base(); c["nodes"][1]["pd"] = None; c["why"] = "processing delay None"; out.append(c)
    c = base(); c["nodes"][0]["iat"] = "often"; c["why"] = "inter-arrival time of type str"; out.append(c)
    c = base(); c["nodes"][1]["setup"] = "x"; c["why"] = "set-up time of type str"; out.append(c)
    c = base(); c["nodes"][1]["in_pol"] = "FIRST"; c["why"] = "unknown in-edge policy name"; out.append(c)
    c = base(); c["nodes"][1]["out_pol"] = "SOMETIMES"; c["why"] = "unknown out-edge policy name"; out.append(c)
    c = base(); c["nodes"][0]["out_pol"] = "first_available"; c["why"] = "source policy name in lower case"; out.append(c)
    c = base(); c["nodes"][1]["out_pol"] = None; c["why"] = "out-edge policy None"; out.append(c)
    c = base(); c["nodes"][1]["in_pol"] = 0.5; c["why"] = "in-edge policy of type float"; out.append(c)
    for i, x in enumerate(out):
        x["expect_error"] = True
        x["expect_props"] = ["C20", "C15"] if "index" in x["why"] or "answers" in x["why"] or "constant" in x["why"] else ["C20"]
        x["family"] = "invalid"
        x["tag"] = "invalid(%s)" % x["why"]
    return out


def invalid_indices(tier):
    return [c for c in invalid_configs(tier) if "C15" in c["expect_props"]]


FAMILIES["invalid"] = invalid_configs
FAMILIES["invalid_indices"] = invalid_indices


def c20_extra(tier):
    out = []
    # zero-valued parameters that the constructors accept
    c = line("fleet", "buf0"); c["edges"][0]["delay"] = 0; c["tag"] = "line(fleet delay=0)"; out.append(c)
    c = line("fleet", "buf0"); c["edges"][0]["transit"] = 0; c["tag"] = "line(fleet transit=0)"; out.append(c)
    c = line("buf0", "fleet"); c["tag"] = "line(buf0,fleet)"; out.append(c)
    c = line("fleet", "fleet", wc=2); c["tag"] = "line(fleet,fleet,wc2)"; out.append(c)
    c = line("buf0", "buf0", iat=[0, 1], n=4); c["tag"] = "line(iat 0 blocking)"; out.append(c)
    c = line("buf0", "buf0", pd=[0], n=4); c["tag"] = "line(pd 0)"; out.append(c)
    # combiner / splitter with the other edge types
    for ek in ("fleet", "cconvA", "sconvA"):
        c = comb_split((1, 1))
        c["edges"] = [EDGE_KINDS[ek](e["id"], e["src"], e["dst"], 2) if e["id"] == "CX" else e for e in c["edges"]]
        c["tag"] = "comb_split(out-edge %s)" % ek
        out.append(c)
        c = comb_split((1, 1))
        c["edges"] = [EDGE_KINDS[ek](e["id"], e["src"], e["dst"], 2) if e["id"] == "XK" else e for e in c["edges"]]
        c["tag"] = "comb_split(splitter out-edge %s)" % ek
        out.append(c)
        c = comb_split((1, 1))
        c["edges"] = [EDGE_KINDS[ek](e["id"], e["src"], e["dst"], 2) if e["id"] == "I1" else e for e in c["edges"]]
        c["tag"] = "comb_split(ingredient edge %s)" % ek
        out.append(c)
    c = comb_split((1,)); c["tag"] = "comb_split(single in-edge)"; out.append(c)
    # wiring applied twice (connect(..., reconnect=True) with the same endpoints) is still the same valid model
    for c in (line("bufF", "buf0"), diamond(), diamond(in_pol=1, out_pol=1), comb_split((1, 1)), fan(3, "ROUND_ROBIN", "machine", True)):
        c["rewire"] = True; c["tag"] += "+rewired"; out.append(c)
    for c in out:
        c["family"] = "c20_extra"
    return out


FAMILIES["c20_extra"] = c20_extra
