"""C05 on PriorityReqStore (simpy-style put/get *requests*): explicit-state BFS over request histories.
Ops: put(prio) / get(prio) issue a request, cancel(i) withdraws a waiting one, tick moves the idle clock
(the sort key is (priority, time), so equal priorities must also be issued at different times)."""
import collections, time
import simpy
from . import seams
from .walker import digest


class W:
    def __init__(self, cap):
        seams.load_all()
        self.env = simpy.Environment()
        self.st = seams.mod("base.priority_req_store").PriorityReqStore(self.env, capacity=cap)
        self.reqs = []   # [side, event, prio, t_issue, arrival, state]
        self.n = 0

    def drain(self):
        while self.env._queue and self.env._queue[0][0] <= self.env.now:
            self.env.step()

    def apply(self, op):
        granted_before = [r[1].triggered for r in self.reqs]
        k = op[0]
        if k == "put":
            ev = self.st.put("item%d" % self.n, op[1])
            self.reqs.append(["p", ev, op[1], self.env.now, self.n, "w"])
            self.n += 1
        elif k == "get":
            ev = self.st.get(op[1])
            self.reqs.append(["g", ev, op[1], self.env.now, self.n, "w"])
            self.n += 1
        elif k == "cancel":
            r = self.reqs[op[1]]
            r[1].cancel()
            r[5] = "c"
        elif k == "tick":
            self.env._now += 1
        self.drain()
        newly = []
        for i, r in enumerate(self.reqs):
            if r[5] == "w" and r[1].triggered:
                r[5] = "g"
                newly.append(r)
        viol = []
        for g in newly:
            for w in self.reqs:
                if w[5] == "w" and w[0] == g[0] and (w[2], w[3], w[4]) < (g[2], g[3], g[4]):
                    viol.append({"property": "C05", "clause": "grant-order", "kind": "prs",
                                 "detail": "%s request #%d (prio %r, issued %s) served while #%d (prio %r, issued %s) still waits"
                                           % ("put" if g[0] == "p" else "get", g[4], g[2], g[3], w[4], w[2], w[3]),
                                 "facets": {"side": g[0], "equal_prio": g[2] == w[2], "store": "PriorityReqStore"}})
        return viol

    def waiting(self, side):
        return [(i, r) for i, r in enumerate(self.reqs) if r[5] == "w" and r[0] == side]

    def canon(self):
        ws = [r for r in self.reqs if r[5] == "w"]
        times = sorted({r[3] for r in ws} | {self.env.now})   # 'now' ranks too: a request issued now may be later than the waiting ones
        order = {id(r[1]): i for i, r in enumerate(ws)}
        return (len(self.st.items), times.index(self.env.now), tuple((r[0], r[2], times.index(r[3])) for r in ws),
                tuple(order.get(id(e), -1) for e in self.st.put_queue), tuple(order.get(id(e), -1) for e in self.st.get_queue))


def replay(cap, hist):
    w = W(cap)
    v = []
    for op in hist:
        v = w.apply(tuple(op))
    return w, v


def explore(cap, live, prios, max_states=200000):
    t0 = time.time()
    w0, _ = replay(cap, ())
    seen = {digest(w0.canon())}
    fr = collections.deque([()])
    res = {"engine": "S", "label": "prs(cap=%d,live=%d,prios=%s)" % (cap, live, prios), "spec": None, "states": 1, "transitions": 0,
           "violations": [], "fixpoint": False, "capped": None, "max_depth": 0, "op_counts": collections.Counter(), "samples_short": [],
           "samples_long": []}
    sigs = set()
    while fr:
        if res["states"] >= max_states:
            res["capped"] = {"states": res["states"]}
            break
        h = fr.popleft()
        w, _ = replay(cap, h)
        ops = []
        for side, nm in (("p", "put"), ("g", "get")):
            if len(w.waiting(side)) < live:
                for p in prios:
                    ops.append((nm, p))
        for i, r in enumerate(w.reqs):
            if r[5] == "w":
                ops.append(("cancel", i))
        if any(r[5] == "w" and r[3] == w.env.now for r in w.reqs):
            ops.append(("tick",))
        for op in ops:
            h2 = h + (op,)
            w2, v = replay(cap, h2)
            res["transitions"] += 1
            res["op_counts"][op[0]] += 1
            if v:
                for x in v:
                    sig = (x["clause"], tuple(sorted(x["facets"].items())))
                    if sig not in sigs:
                        sigs.add(sig)
                        x = dict(x)
                        x["history"] = [list(o) for o in h2]
                        x["prs_cap"] = cap
                        res["violations"].append(x)
                continue
            k = digest(w2.canon())
            if k in seen:
                continue
            seen.add(k)
            res["states"] += 1
            res["max_depth"] = max(res["max_depth"], len(h2))
            if len(res["samples_short"]) < 2 and len(h2) >= 3:
                res["samples_short"].append([list(o) for o in h2])
            res["samples_long"] = [[list(o) for o in h2]]
            fr.append(h2)
    res["fixpoint"] = res["capped"] is None
    res["op_counts"] = dict(res["op_counts"])
    res["wall"] = round(time.time() - t0, 2)
    return res
