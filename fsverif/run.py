"""CLI: bin/check <Cxx> [--tier quick|thorough] [--replay path] [--jobs N]"""
import sys, os, json, time, argparse, hashlib, multiprocessing, traceback

ROOT = os.path.dirname(os.path.dirname(os.path.abspath(__file__)))


def load_known():
    p = os.path.join(ROOT, "known_findings.json")
    if not os.path.exists(p):
        return {"open": [], "fixed": []}
    return json.load(open(p))


def match_known(v, known):
    for e in known.get("open", []):
        if e["property"] != v["property"] or e.get("clause") not in (None, v["clause"]):
            continue
        if e.get("kind") not in (None, v.get("kind")):
            continue
        fac = v.get("facets", {})
        if all(fac.get(k) == val for k, val in e.get("facets", {}).items()):
            return e
    return None


def _run_job(args):
    job, seed = args
    try:
        from . import checks
        return checks.run_job(job, seed)
    except BaseException as e:  # noqa
        return {"label": job.get("label", "?"), "error": "%s: %s\n%s" % (type(e).__name__, e, traceback.format_exc())}


def write_replay(prop, v):
    os.makedirs(os.path.join(ROOT, "replays"), exist_ok=True)
    blob = json.dumps(v, sort_keys=True, default=str)
    h = hashlib.sha1(blob.encode()).hexdigest()[:10]
    p = os.path.join(ROOT, "replays", "%s-%s.json" % (prop, h))
    with open(p, "w") as f:
        f.write(json.dumps(v, indent=1, default=str))
    return p


def main(argv=None):
    ap = argparse.ArgumentParser()
    ap.add_argument("prop")
    ap.add_argument("--tier", default=os.environ.get("VERIF_TIER", "quick"))
    ap.add_argument("--replay")
    ap.add_argument("--jobs", type=int, default=int(os.environ.get("VERIF_JOBS", "0")) or min(16, os.cpu_count() or 4))
    ap.add_argument("--only", default=None, help="substring filter on job labels (debugging)")
    a = ap.parse_args(argv)
    prop = a.prop
    tier = a.tier if a.tier in ("quick", "thorough") else "quick"
    seed = int(os.environ.get("VERIF_SEED", "0") or 0)
    from . import checks
    if a.replay:
        return checks.replay_file(a.replay)
    t0 = time.time()
    jobs = checks.jobs_for(prop, tier)
    if a.only:
        jobs = [j for j in jobs if a.only in j["label"]]
    if seed:
        import random
        random.Random(seed).shuffle(jobs)
    known = load_known()
    if a.jobs > 1 and len(jobs) > 1:
        ctx = multiprocessing.get_context("fork")
        with ctx.Pool(min(a.jobs, len(jobs))) as pool:
            results = pool.map(_run_job, [(j, seed) for j in jobs], chunksize=1)
    else:
        results = [_run_job((j, seed)) for j in jobs]
    broken = [r for r in results if "error" in r]
    for r in broken:
        print("CHECK-ERROR job=%s %s" % (r["label"], r["error"]))
    results = [r for r in results if "error" not in r]
    nviol = 0
    known_hit = {}
    lines = []
    for r in results:
        for v in r.get("violations", []):
            v.setdefault("property", prop)
            v["job"] = r["label"]
            v["engine"] = r.get("engine", "S")
            v["spec"] = r.get("spec")
            e = match_known(v, known)
            if e is not None:
                known_hit.setdefault(e["id"], (e, v))
                continue
            nviol += 1
            path = write_replay(prop, v)
            lines.append("VIOLATION property=%s replay=%s" % (prop, path))
            lines.append("  # %s | %s | %s" % (r["label"], v["clause"], str(v["detail"])[:300]))
    for eid, (e, v) in sorted(known_hit.items()):
        print("KNOWN-FINDING: property=%s %s [%s]" % (prop, e["what"], eid))
    # stale known findings: listed for this property but not reproduced
    for e in known.get("open", []):
        if e["property"] == prop and e["id"] not in known_hit:
            print("NOTE: known finding %s was not reproduced by this run (tier %s)" % (e["id"], tier))
    for l in lines:
        print(l)
    ev = checks.evidence(prop, tier, seed, results, nviol, sorted(known_hit), time.time() - t0)
    selftest = checks.selftest(prop, tier, results, ev)
    evdir = os.environ.get("VERIF_EVIDENCE_DIR") or os.path.join(ROOT, "evidence")
    os.makedirs(evdir, exist_ok=True)
    with open(os.path.join(evdir, "%s.json" % prop), "w") as f:
        json.dump(ev, f, indent=1, default=str)
    cov = ev["coverage"]
    print("%s tier=%s seed=%d jobs=%d states=%d transitions=%d traces=%d exhaustive=%s violations=%d known=%d wall=%.1fs"
          % (prop, tier, seed, len(results), cov["states"], cov["transitions"], cov["traces_validated_against_impl"],
             cov["exhaustive"], nviol, len(known_hit), time.time() - t0))
    if broken:
        return 2
    if selftest:
        for s in selftest:
            print("CHECK-BROKEN %s: %s" % (prop, s))
        return 2
    return 1 if nviol else 0


if __name__ == "__main__":
    sys.exit(main())
