"""C19: reproducibility as a differential oracle (no expected values): every enumerated (config, choice
sequence, random seed) is run twice in this interpreter and once in each of three fresh interpreters with
different PYTHONHASHSEED and a perturbed allocation prefix; logs + final stats must be identical."""
import sys, os, json, subprocess, tempfile, time, copy
from . import engine_f, factory, fmonitors

HASHSEEDS = ["0", "1", "4242"]
SEEDS = [0, 1, 7]


def enumerate_cases(tier):
    q = tier == "quick"
    cases = []
    fams = ["lines", "diamonds", "fans", "conveyors", "combiners", "congestion", "fleet_dense", "splitters", "nonblocking_fleet"]
    for fam in fams:
        for cfg in factory.FAMILIES[fam](tier):
            cfg = copy.deepcopy(cfg)
            cfg["digest_stats"] = True
            uses_random = "RANDOM" in json.dumps(cfg)
            seeds = SEEDS if uses_random else [0]
            for sd in seeds:
                c = dict(cfg)
                c["real_random"] = sd
                cases.append((c, ()))
    # choice deviations (bound 1) on the default run of each case
    out = []
    for c, _ in cases:
        r = engine_f.run(c, (), [])
        out.append((c, ()))
        if r.crash is not None:
            continue
        step = 1 if not q else 2
        for i in range(0, len(r.choices), step):
            name, n, ch = r.choices[i]
            for alt in range(1, n):
                out.append((c, tuple(x[2] for x in r.choices[:i]) + (alt,)))
    return out


def digests(cases):
    ds = []
    for c, prefix in cases:
        r = engine_f.run(c, prefix, [])
        crash = None if r.crash is None else "%s:%s" % (r.crash[0], type(r.crash[1]).__name__)
        ds.append([r.digest, r.events, crash, [v["clause"] for v in r.viol if v["property"] == "C19"]])
    return ds


def worker(path):
    # perturb the allocator / hash-dependent layout before anything is imported
    junk = [object() for _ in range(1000 + (hash("x") % 5000))]
    cases = json.load(open(path))
    ds = digests([(c, tuple(p)) for c, p in cases])
    del junk
    print("C19DIGESTS " + json.dumps(ds))


def run(tier, seed):
    t0 = time.time()
    cases = enumerate_cases(tier)
    d1 = digests(cases)
    d2 = digests(cases)
    viol = []
    steps = 0

    def V(clause, detail, i, **f):
        c, p = cases[i]
        viol.append({"property": "C19", "clause": clause, "detail": detail, "kind": "factory", "facets": f,
                     "config": c, "choices": list(p)})
    for i, (a, b) in enumerate(zip(d1, d2)):
        if a[3]:
            V("time-monotone", "simulated time decreased in %s" % cases[i][0]["tag"], i, where="in-process")
        if a != b:
            V("same-interpreter", "two runs of %s choices %s in one interpreter differ: %s vs %s" % (cases[i][0]["tag"], list(cases[i][1]), a[:3], b[:3]), i,
              where="in-process")
            break
    tmp = tempfile.NamedTemporaryFile("w", suffix=".json", prefix="fsverif-c19-", dir="/var/tmp", delete=False)
    json.dump([[c, list(p)] for c, p in cases], tmp)
    tmp.close()
    procs = []
    try:
        for hs in HASHSEEDS:
            env = dict(os.environ)
            env["PYTHONHASHSEED"] = hs
            procs.append((hs, subprocess.Popen([sys.executable, "-c", "import sys; sys.path.insert(0, %r); from fsverif import c19; c19.worker(%r)"
                                                % (os.path.dirname(os.path.dirname(os.path.abspath(__file__))), tmp.name)],
                                               stdout=subprocess.PIPE, stderr=subprocess.PIPE, env=env, text=True)))
        for hs, p in procs:
            out, err = p.communicate(timeout=1500)
            line = [l for l in out.split("\n") if l.startswith("C19DIGESTS ")]
            if p.returncode != 0 or not line:
                raise RuntimeError("C19 worker (PYTHONHASHSEED=%s) failed: rc=%s %s" % (hs, p.returncode, err[-800:]))
            dx = json.loads(line[0][len("C19DIGESTS "):])
            for i, (a, b) in enumerate(zip(d1, dx)):
                if a != b:
                    V("separate-interpreters", "%s choices %s: this interpreter gives %s, a fresh interpreter with PYTHONHASHSEED=%s gives %s"
                      % (cases[i][0]["tag"], list(cases[i][1]), a[:3], hs, b[:3]), i, where="PYTHONHASHSEED=" + hs)
                    break
    finally:
        os.unlink(tmp.name)
    nontrivial = len({d[0] for d in d1 if d[1] > 0})
    return {"engine": "F", "label": "C19 differential x%d interpreters" % (1 + len(HASHSEEDS)), "spec": None,
            "states": nontrivial, "transitions": sum(d[1] for d in d1) * (2 + len(HASHSEEDS)), "traces": len(cases) * (2 + len(HASHSEEDS)),
            "runs": len(cases) * (2 + len(HASHSEEDS)), "violations": viol, "fixpoint": True, "capped": None,
            "crash_cuts": sum(1 for d in d1 if d[2]), "distinct_logs": nontrivial, "distinct_nontrivial": nontrivial,
            "wall": round(time.time() - t0, 2), "deviation_bound": 1,
            "samples_short": [{"config": cases[0][0]["tag"], "choices": list(cases[0][1]), "digest": d1[0][0]}],
            "samples_long": [{"config": cases[-1][0]["tag"], "choices": list(cases[-1][1]), "digest": d1[-1][0]}],
            "counters": {"cases": len(cases), "hash_seeds": len(HASHSEEDS), "random_seeds": len(SEEDS)}}
