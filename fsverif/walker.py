"""Canonical form of a live object graph (DESIGN §3.3).

Objects are named by first-visit order, so two histories that differ only in
object identity, in token / item numbering or in absolute time merge.  The
walker is closed-world only about what it *drops*: an attribute it has never
heard of is kept verbatim, which can make the search finer, never coarser.
"""
import types, numbers, hashlib
import simpy
from simpy.events import Event, Process, Timeout, Condition, Initialize

# absolute time stamps -> stored relative to now
TIMESTAMPS = {
    "_last_level_change_time", "put_time", "conveyor_entry_time", "conveyor_exit_time",
    "interruption_start_time", "conveyor_ready_item_entry_time", "start_time",
    "time_last_occupancy_change", "last_state_change_time", "timestamp_creation",
    "timestamp_node_entry", "timestamp_node_exit", "timestamp_destruction",
    "fleet_entry_time", "fleet_exit_time", "blocking_start_time", "processing_start_time",
    "interruption_start_time_phase1", "interruption_start_time_phase2",
}
# pure statistics / bookkeeping that no behaviour reads
STATS = {
    "_weighted_sum", "time_averaged_num_of_items_in_store", "stats", "_eid",
    "time_per_work_occupancy", "total_time_all_blocked", "total_time_all_processing",
    "total_time_atleast_one_blocked", "total_time_atleast_one_processing", "total_time_idle",
    "total_time_setup", "per_thread_total_time_in_blocked_state",
    "per_thread_total_time_in_processing_state", "item_list", "buffertime",
}
EVENT_SKIP = {"env", "callbacks", "_value", "_ok", "_defused", "_delay"}


class Walker:
    def __init__(self, now, item_ids=None, keep_stats=False, drop=(), age_cap=float("inf")):
        self.now = now
        self.age_cap = age_cap
        self.memo = {}
        self.keep = []  # keep objects alive so ids are not recycled during the walk
        self.item_ids = item_ids or {}
        self.drop = (set() if keep_stats else set(STATS)) | set(drop)
        self.opaque = ()

    def name(self, o):
        self.memo[id(o)] = len(self.memo)
        self.keep.append(o)

    def w(self, o, key=None):
        if o is None or isinstance(o, bool):
            return o
        if isinstance(o, str):
            it = self.item_ids.get(o)
            if it is not None:
                return ("itemid", self.w(it))
            return o
        if isinstance(o, numbers.Integral) and key not in TIMESTAMPS:
            return int(o)
        if isinstance(o, numbers.Real):
            f = float(o)
            if key in TIMESTAMPS:
                f = max(f - self.now, -self.age_cap)
            return round(f, 9) + 0.0
        if isinstance(o, (list, tuple)):
            return (type(o).__name__[0],) + tuple(self.w(x) for x in o)
        if isinstance(o, dict):
            return ("d",) + tuple((self.w(k), self.w(v, k if isinstance(k, str) else None))
                                  for k, v in o.items()
                                  if not (isinstance(k, str) and k in self.drop))
        if isinstance(o, (set, frozenset)):
            return ("s",) + tuple(sorted((self.w(x) for x in o), key=repr))
        oid = id(o)
        if oid in self.memo:
            return ("ref", self.memo[oid])
        if isinstance(o, types.MethodType):
            return ("meth", o.__func__.__qualname__, self.w(o.__self__))
        if isinstance(o, (types.FunctionType, types.BuiltinFunctionType, type)):
            return ("fn", getattr(o, "__qualname__", repr(o)))
        if isinstance(o, self.opaque):
            return ("opaque", type(o).__name__)
        self.name(o)
        n = self.memo[oid]
        if isinstance(o, simpy.Environment):
            # a scheduled Timeout that nobody listens to (callbacks == []) fires as a no-op: dropped
            q = sorted((x for x in o._queue if not (type(x[3]) is Timeout and x[3].callbacks == [])),
                       key=lambda x: x[:3])
            return ("env", n, tuple((round(t - o._now, 9) + 0.0, p, self.w(e)) for t, p, _i, e in q),
                    self.w(o._active_proc))
        if isinstance(o, Process):
            g = o._generator
            return ("proc", n, self.gen(g), self.w(o._target) if g.gi_frame is not None else None,
                    o.triggered, o.callbacks is None,
                    self.cbs(o), self.extra(o))
        if isinstance(o, Event):
            d = getattr(o, "_delay", None)
            ev = getattr(o, "_events", None)
            return (type(o).__name__, n, o.triggered, o.callbacks is None, self.cbs(o), self.extra(o),
                    None if d is None else round(float(d), 9),
                    None if ev is None else tuple(self.w(e) for e in ev))
        if isinstance(o, types.GeneratorType):
            return ("gen", n, self.gen(o))
        if isinstance(o, BaseException):
            return ("exc", type(o).__name__)
        d = getattr(o, "__dict__", None)
        if d is None:
            sl = getattr(type(o), "__slots__", None)
            if sl:
                return (type(o).__name__, n, tuple((k, self.w(getattr(o, k, None), k)) for k in sl))
            return ("obj", type(o).__name__, n)
        out = []
        for k in sorted(d):
            if k in self.drop:
                continue
            out.append((k, self.w(d[k], k)))
        return (type(o).__name__, n, tuple(out))

    def cbs(self, e):
        if e.callbacks is None:
            return None
        return tuple(self.w(c) for c in e.callbacks)

    def extra(self, e):
        return tuple((k, self.w(v, k)) for k, v in sorted(e.__dict__.items())
                     if k not in EVENT_SKIP and not k.startswith("_"))

    def gen(self, g):
        fr = g.gi_frame
        if fr is None:
            return (g.__name__, None)
        loc = tuple((k, self.w(v, k)) for k, v in sorted(fr.f_locals.items())
                    if k != "self" and k not in self.drop)
        return (g.__name__, fr.f_lasti, loc)


def digest(t):
    return hashlib.blake2b(repr(t).encode(), digest_size=12).digest()
