"""Engine S — explicit-state breadth-first exploration of one real store / edge (DESIGN §3)."""
import collections, time, random
from .world import World, Spec, replay, Crash, PENDING, GRANTED, USED, CANC
from .walker import Walker, digest
from .seams import events_now, call_as
from . import monitors as M


def canon(w, keep_stats=False):
    wk = Walker(w.now, item_ids=w.item_ids(), keep_stats=keep_stats, drop=("id", "n"), age_cap=w.spec.get("age_cap", 4))
    wk.opaque = (World,)
    ledger_t = tuple((t.side, wk.w(t.ev), wk.w(w.actors[t.actor]), t.prio, t.filt, t.status)
                     for t in w.toks if t.live)
    ledger_i = []
    for x in w.items:
        if x.inside:
            rem = max(0.0, x.t_put + (x.delay or 0) - w.now)
            ledger_i.append((wk.w(x.obj), round(rem, 9), x.obj.color))
    ms = tuple(wk.w(m.state(w)) for m in getattr(w, "mons", []))
    body = wk.w(w.obj)
    envq = wk.w(w.env)
    return (ledger_t, tuple(ledger_i), ms, body, envq, min(w.puts_now, w.spec.get("puts_per_instant") or 0))


def enabled(w, b):
    """well-formed alphabet, simplest first"""
    ops = []
    sp = w.spec
    L = sp.get("live", 2)
    prios = sp.get("prios", [None])
    filters = sp.get("filters", [None])
    nact = len(w.actors)
    lp = w.live("p")
    lg = w.live("g")
    for a in range(nact):
        for p in prios:
            if len(lp) < sp.get("live_p", L):
                ops.append(("rp", a, p))
            if len(lg) < sp.get("live_g", L):
                for f in filters:
                    ops.append(("rg", a, p, f) if f is not None else ("rg", a, p))
    eager = sp.get("eager_get")
    if eager:
        gg = [t for t in w.toks if t.side == "g" and t.status == GRANTED]
        if gg:
            return [("get", gg[0].idx)]
        ops = [o for o in ops if not (o[0] == "rg" and lg)]
    for t in w.toks:
        if not t.live:
            continue
        if t.side == "p":
            if t.status == GRANTED and not (sp.get("puts_per_instant") and w.puts_now >= sp.get("puts_per_instant")):
                for d in sp.get("delays", [0]):
                    for c in sp.get("colors", ["red"]):
                        ops.append(("put", t.idx, d, c))
            if not sp.get("no_cancel"):
                ops.append(("cp", t.idx))
        else:
            if t.status == GRANTED:
                ops.append(("get", t.idx))
            if not sp.get("no_cancel"):
                ops.append(("cg", t.idx))
    ops += w.enabled_time_ops()
    return ops


class Result:
    def __init__(self, spec, prop):
        self.spec = spec.to_json()
        self.label = spec.label()
        self.prop = prop
        self.states = 0
        self.transitions = 0
        self.replayed_ops = 0
        self.instant_end_states = 0
        self.max_depth = 0
        self.fixpoint = False
        self.capped = None
        self.violations = []
        self.crash_cuts = 0
        self.crash_samples = []
        self.probes = 0
        self.op_counts = collections.Counter()
        self.counters = collections.Counter()
        self.samples_short = []
        self.samples_long = []
        self.wall = 0.0

    def to_json(self):
        d = dict(self.__dict__)
        d["op_counts"] = dict(self.op_counts)
        d["counters"] = dict(self.counters)
        return d


def explore(spec, prop, mon_classes, probe=None, seed=0, max_states=200000, max_seconds=600, horizon=None,
            max_viol=6, known=None, keep_stats=False):
    """BFS to a fixpoint over canonical states.  probe(world, hist, fork) -> violations evaluated in every new state."""
    t0 = time.time()
    rng = random.Random(seed)
    res = Result(spec, prop)
    w0, v0 = replay(spec, (), mon_classes)
    assert not v0
    seen = {digest(canon(w0, keep_stats)): 0}
    ops0 = enabled(w0, None)
    frontier = collections.deque([((), ops0)])
    res.states = 1
    sigs = set()

    def fork(hist, extra, with_mons=False):
        res.probes += 1
        return replay(spec, tuple(hist) + tuple(extra), mon_classes if with_mons else None)

    def record(v, hist):
        sig = (v["property"], v["kind"], v["clause"], tuple(sorted(v["facets"].items())))
        if sig in sigs:
            return
        sigs.add(sig)
        v = dict(v)
        v["history"] = [list(o) for o in hist]
        res.violations.append(v)

    while frontier:
        if res.states >= max_states or time.time() - t0 > max_seconds:
            res.capped = {"states": res.states, "seconds": round(time.time() - t0, 1),
                          "frontier_left": len(frontier), "depth_fully_covered": len(frontier[0][0]) - 1}
            break
        hist, ops = frontier.popleft()
        ops = list(ops)   # fixed, simplest-first order: the explored set must not depend on VERIF_SEED
        for op in ops:
            h2 = hist + (op,)
            w2, viols = replay(spec, h2, mon_classes)
            res.transitions += 1
            res.replayed_ops += len(h2)
            res.op_counts[op[0]] += 1
            if w2.crashed is not None:
                res.crash_cuts += 1
                if len(res.crash_samples) < 5:
                    res.crash_samples.append({"history": [list(o) for o in h2], "crash": str(w2.crashed[1])})
            mine = [v for v in viols if v["property"] == prop]
            if mine:
                for v in mine:
                    record(v, h2)
                continue
            if w2.crashed is not None:
                continue
            if horizon is not None and w2.now > horizon + 1e-9:
                res.counters["horizon_cut"] += 1
                continue
            k = digest(canon(w2, keep_stats))
            if k in seen:
                continue
            seen[k] = len(h2)
            res.states += 1
            res.max_depth = max(res.max_depth, len(h2))
            if not events_now(w2.env):
                res.instant_end_states += 1
            for m in w2.mons:
                c = getattr(m, "count", None)
                if c:
                    c(w2, res.counters)
            if probe is not None:
                pv = probe(w2, h2, fork, res.counters)
                if pv:
                    for v in pv:
                        record(v, v.pop("_hist", h2))
                    continue
            if len(res.samples_short) < 3 and len(h2) >= 3:
                res.samples_short.append([list(o) for o in h2])
            res.samples_long = (res.samples_long + [[list(o) for o in h2]])[-3:]
            frontier.append((h2, enabled(w2, None)))
        if len(res.violations) >= max_viol:
            res.capped = {"reason": "violation cap", "states": res.states}
            break
    else:
        res.fixpoint = True
    res.fixpoint = res.capped is None
    res.wall = round(time.time() - t0, 2)
    return res
