"""Harness seams: import the library from the tree under test, silence it,
own its sources of nondeterminism.  Nothing here changes /repo."""
import os, sys, importlib, pkgutil

SRC = os.environ.get("FSVERIF_SRC", "/repo/src")
if SRC not in sys.path[:1]:
    sys.path.insert(0, SRC)

import simpy  # noqa: E402


def _noprint(*a, **k):
    return None


_loaded = {}


def load_all():
    """Import every factorysimpy module that imports cleanly and stub print."""
    if _loaded:
        return _loaded
    import factorysimpy
    assert os.path.realpath(factorysimpy.__file__).startswith(os.path.realpath(SRC)), (
        "library imported from %s, expected %s" % (factorysimpy.__file__, SRC))
    for m in pkgutil.walk_packages(factorysimpy.__path__, "factorysimpy."):
        try:
            mod = importlib.import_module(m.name)
        except Exception as e:  # import errors are a C20 matter, recorded there
            _loaded[m.name] = e
            continue
        mod.print = _noprint
        _loaded[m.name] = mod
    return _loaded


def mod(name):
    load_all()
    m = _loaded["factorysimpy." + name]
    if isinstance(m, Exception):
        raise m
    return m


class Actor:
    """Stands in for a simpy process as the caller of a store API."""
    __slots__ = ("n",)

    def __init__(self, n):
        self.n = n

    def __repr__(self):
        return "actor%d" % self.n


class call_as:
    """Context manager: make `actor` the env's active process."""

    def __init__(self, env, actor):
        self.env, self.actor = env, actor

    def __enter__(self):
        self.prev = self.env._active_proc
        self.env._active_proc = self.actor

    def __exit__(self, *a):
        self.env._active_proc = self.prev
        return False


class StubNode:
    """src_node / dest_node placeholder for edges driven without a factory."""

    def __init__(self, id):
        self.id = id
        self.in_edges = None
        self.out_edges = None


def events_now(env):
    """number of kernel events scheduled at the current instant"""
    n = 0
    for t, _p, _i, _e in env._queue:
        if t <= env._now:
            n += 1
    return n


def peek(env):
    return env._queue[0][0] if env._queue else float("inf")
