"""Fork probes of Engine S (DESIGN §3.4): evaluated in every newly reached state on a fresh replay."""
from .world import bad_calls, PENDING, GRANTED, Crash
from .walker import digest
from .monitors import V, key, EPS
from .seams import events_now


def _canon(w):
    from .engine_s import canon
    return canon(w)


# ---------------------------------------------------------------- C04: the poke
def poke(w, hist, fork, counters):
    if events_now(w.env):
        return []
    out = []
    for side in ("p", "g"):
        waiting = w.waiting(side)
        if not waiting:
            continue
        counters["poke_states_" + side] += 1
        head = min(waiting, key=key)
        prio = 9 if w.has_prio and (head.prio is not None or w.spec.kind in ("rps", "rpfs")) else None
        if side == "p":
            op = ("rp", head.actor, prio)
        else:
            op = ("rg", head.actor, prio, head.filt) if head.filt is not None else ("rg", head.actor, prio)
        w2, _ = fork(hist, [op])
        if w2.crashed is not None:
            continue  # a crash of a well-formed call is C20's
        o = w2.log[-1]
        flipped = [t.idx for t in o["granted"]]
        if flipped:
            out.append(V("C04", "poke", w,
                         "at the end of instant %s, %d %s request(s) were waiting; one more request behind them made token(s) %s granted: the store could serve and had not"
                         % (w.now, len(waiting), "space" if side == "p" else "retrieval", flipped),
                         side=side, poke_itself=(flipped == [len(w2.toks) - 1]), subject=w.spec.kind,
                         granted_unused_same_side=bool(w.granted(side))))
    return out


# ---------------------------------------------------------------- C07: ill-formed calls
def illformed(w, hist, fork, counters):
    out = []
    w2, _ = fork(hist, [])
    before = digest(_canon(w2))
    for name, thunk in bad_calls(w2):
        counters["bad_calls"] += 1
        counters["bad:" + name] += 1
        exc, ret = thunk()
        bad = None
        if exc is None:
            bad = V("C07", "rejected", w, "%s was accepted (returned %r) instead of raising RuntimeError" % (name, ret),
                    call=name.split("(")[0], kind_of_token=name)
        elif not isinstance(exc, RuntimeError):
            bad = V("C07", "raises-RuntimeError", w, "%s raised %s: %s instead of RuntimeError" % (name, type(exc).__name__, exc),
                    call=name.split("(")[0], kind_of_token=name, exc=type(exc).__name__)
        else:
            w2.settle()
            after = digest(_canon(w2))
            if after != before:
                bad = V("C07", "no-side-effect", w, "%s raised RuntimeError but changed the store's state" % name,
                        call=name.split("(")[0], kind_of_token=name)
        if bad is not None:
            out.append(bad)
            w2, _ = fork(hist, [])
    return out


# ---------------------------------------------------------------- C11: can_put / can_get versus a probe reservation
def queries(w, hist, fork, counters):
    out = []
    e = w.edge
    for side, q in (("p", "can_put"), ("g", "can_get")):
        try:
            ans = bool(getattr(e, q)())
        except BaseException as ex:  # noqa
            out.append(V("C11", q + "-answers", w, "%s() raised %s: %s" % (q, type(ex).__name__, ex), query=q))
            continue
        counters[q + "_" + str(ans)] += 1
        w2, _ = fork(hist, [("rp", 0, None) if side == "p" else ("rg", 0, None)])
        if w2.crashed is not None:
            continue
        granted_now = w2.toks[-1].ev.triggered
        if granted_now != ans:
            out.append(V("C11", q + "-exact", w,
                         "%s() answered %s but a reservation issued in the same state was %s (held=%d, granted space=%d, granted retrievals=%d, waiting p/g=%d/%d)"
                         % (q, ans, "granted at once" if granted_now else "left waiting", w.held(),
                            len(w.granted("p")), len(w.granted("g")), len(w.waiting("p")), len(w.waiting("g"))),
                         query=q, answered=ans))
    # drain probe: how many items can really be taken right now
    if w.spec.kind == "buffer" and not events_now(w.env) and not w.waiting("g"):
        exp = [x for x in w.inside() if x.t_put + x.delay <= w.now + EPS]
        n_free = len(exp) - len(w.granted("g"))
        if n_free >= 0:
            ops = [("rg", 0, None)] * (len(w.inside()) + 1)
            w2, _ = fork(hist, ops)
            if w2.crashed is None:
                got = [t for t in w2.toks[len(w.toks):] if t.ev.triggered]
                counters["drain_probes"] += 1
                if len(got) != n_free:
                    out.append(V("C11", "retrievable-from-t+d", w,
                                 "at t=%s %d item(s) have completed their delay and %d retrieval(s) are already granted, but %d further retrievals were granted"
                                 % (w.now, len(exp), len(w.granted("g")), len(got)), more=len(got) > n_free))
    return out


PROBES = {"C04": poke, "C07": illformed, "C11": queries}
