"""World = one fresh real store / edge + the explorer's ledger of the calls made.

A state of Engine S is the history (tuple of ops) that reaches it; World.replay
rebuilds the real object from scratch and re-executes the history.
"""
import math
import simpy
from . import seams
from .seams import Actor, call_as, StubNode, events_now, peek

PENDING, GRANTED, USED, CANC = "pending", "granted", "used", "canc"


class HItem:
    """flow item put by the harness (identity is what is followed)"""

    def __init__(self, n, color, length=1):
        self.id = "i%d" % n
        self.n = n
        self.color = color
        self.length = length

    def __repr__(self):
        return self.id


def f_red(x):
    return getattr(x, "color", None) == "red"


def f_blue(x):
    return getattr(x, "color", None) == "blue"


FILTERS = {"red": f_red, "blue": f_blue}


class Tok:
    __slots__ = ("idx", "side", "ev", "actor", "prio", "filt", "status", "arr", "t_issue", "t_grant",
                 "grant_seq")

    def __init__(self, idx, side, ev, actor, prio, filt, arr, now):
        self.idx, self.side, self.ev, self.actor, self.prio, self.filt = idx, side, ev, actor, prio, filt
        self.status = PENDING
        self.arr = arr
        self.t_issue = now
        self.t_grant = None
        self.grant_seq = None

    @property
    def live(self):
        return self.status in (PENDING, GRANTED)


class Itm:
    __slots__ = ("obj", "t_put", "delay", "inside", "t_avail_obs", "avail_seq", "t_get", "n", "x")

    def __init__(self, obj, t_put, delay):
        self.obj, self.t_put, self.delay = obj, t_put, delay
        self.inside = True
        self.t_avail_obs = None  # first instant the item was seen available (public ready list)
        self.avail_seq = None   # op counter at that first observation (orders same-instant arrivals)
        self.t_get = None
        self.n = obj.n
        self.x = {}             # scratch for subject-specific monitors


class Crash(Exception):
    """an exception escaped a well-formed call or env.step()"""

    def __init__(self, where, exc):
        Exception.__init__(self, "%s: %s: %s" % (where, type(exc).__name__, str(exc)[:200]))
        self.where, self.exc = where, exc


class Spec:
    """static description of a subject (JSON-able)"""

    def __init__(self, kind, cap=2, **kw):
        self.kind = kind
        self.cap = cap
        self.kw = kw

    def get(self, k, d=None):
        return self.kw.get(k, d)

    def to_json(self):
        d = {"kind": self.kind, "cap": self.cap}
        d.update(self.kw)
        return d

    @staticmethod
    def from_json(d):
        d = dict(d)
        return Spec(d.pop("kind"), d.pop("cap"), **d)

    def label(self):
        extra = ",".join("%s=%s" % (k, v) for k, v in sorted(self.kw.items())
                         if k not in ("live", "actors", "prios", "delays", "colors", "filters", "grid"))
        return "%s(cap=%d%s)" % (self.kind, self.cap, "," + extra if extra else "")


class World:
    LIVELOCK_BUDGET = 20000

    def __init__(self, spec):
        self.spec = spec
        seams.load_all()
        self.env = simpy.Environment()
        self.actors = [Actor(i) for i in range(spec.get("actors", 1))]
        self.toks = []
        self.items = []       # Itm records, in put order
        self.narr = 0
        self.delay_calls = 0  # times the edge consulted its delay callable
        self._next_delay = 0
        self.log = []
        self.kernel_steps = 0
        self.steps_this_instant = 0
        self.puts_now = 0      # puts issued in the current instant (alphabet bound for subjects that spawn a timer per put)
        self.mon = None
        self.crashed = None
        k = spec.kind
        cap = spec.cap
        env = self.env
        self.edge = None
        if k == "rs":
            self.store = seams.mod("base.reservable_req_store").ReservableReqStore(env, capacity=cap)
        elif k == "rps":
            self.store = seams.mod("base.reservable_priority_req_store").ReservablePriorityReqStore(env, capacity=cap)
        elif k == "rpfs":
            self.store = seams.mod("base.reservable_priority_req_filter_store").ReservablePriorityReqFilterStore(
                env, capacity=cap, trigger_delay=spec.get("td", 0))
        elif k == "buffer":
            self.edge = seams.mod("edges.buffer").Buffer(env, "B", capacity=cap, delay=self._delay_cb,
                                                          mode=spec.get("mode", "FIFO"))
            self.store = self.edge.inbuiltstore
        elif k == "fleet":
            self.edge = seams.mod("edges.fleet").Fleet(env, "F", capacity=cap, delay=spec.get("delay", 2),
                                                       transit_delay=spec.get("transit", 1))
            self.store = self.edge.inbuiltstore
        elif k == "cconv":
            L = spec.get("ilen", 1)
            self.edge = seams.mod("edges.continuous_conveyor").ConveyorBelt(
                env, "C", conveyor_length=spec.get("clen", cap * L), speed=spec.get("speed", 1),
                item_length=L, accumulating=spec.get("acc", 1))
            self.store = self.edge.belt
            assert self.edge.capacity == cap, (self.edge.capacity, cap)
        elif k == "sconv":
            self.edge = seams.mod("edges.slotted_conveyor").ConveyorBelt(
                env, "S", capacity=cap, delay=spec.get("delay", 1), accumulating=spec.get("acc", 1))
            self.store = self.edge.belt
        else:
            raise ValueError(k)
        if self.edge is not None:
            self.edge.src_node = StubNode("SRC")
            self.edge.dest_node = StubNode("DST")
        self.obj = self.edge if self.edge is not None else self.store
        self.has_prio = k in ("rps", "rpfs", "fleet", "sconv")
        self.timed = k not in ("rs", "rps") and not (k == "rpfs" and spec.get("td", 0) == 0 and False)
        self.grid = spec.get("grid", 0.5)
        self.settle()

    # ------------------------------------------------------------------ seams
    def _delay_cb(self):
        self.delay_calls += 1
        return self._next_delay

    @property
    def now(self):
        return self.env._now

    def tok_target(self, use_prio):
        """object whose reserve_* is called: the edge, or its store when a priority is passed
        (edges do not forward priorities; Sink addresses the store directly as well)"""
        if self.edge is not None and use_prio and self.spec.kind in ("fleet", "sconv"):
            return self.store
        return self.obj

    # -------------------------------------------------------------- kernel
    def step_kernel(self):
        try:
            self.env.step()
        except simpy.core.EmptySchedule:
            raise
        except BaseException as e:  # noqa
            raise Crash("env.step", e)
        self.kernel_steps += 1

    def settle(self):
        """retire kernel entries at `now` that are harness tokens without callbacks: processing them has
        no effect (no callbacks, no failure), in whatever order, and keeping them only multiplies states"""
        env = self.env
        q = env._queue
        if not q or q[0][0] > env._now:
            return
        tokevs = {id(t.ev) for t in self.toks}
        keep = []
        hit = False
        for ent in q:
            e = ent[3]
            if ent[0] <= env._now and id(e) in tokevs and e.callbacks == [] and e._ok:
                e.callbacks = None
                hit = True
            else:
                keep.append(ent)
        if hit:
            import heapq
            q[:] = keep
            heapq.heapify(q)

    # ------------------------------------------------------------------ ops
    def enabled_time_ops(self):
        ops = []
        n = events_now(self.env)
        if n:
            ops.append(("step",))
        else:
            nxt = peek(self.env)
            if nxt < float("inf"):
                ops.append(("adv",))
            if self.timed and not self.spec.get("notime"):
                g = self.grid
                t = (math.floor(self.now / g + 1e-9) + 1) * g
                if t < nxt - 1e-9:
                    ops.append(("advp",))
        return ops

    def apply(self, op):
        """execute one op on the real object; returns an observation dict.
        Raises Crash when a well-formed call or the kernel raises."""
        env = self.env
        k = op[0]
        obs = {"op": op, "t": self.now, "ret": None, "exc": None}
        before = [t.ev.triggered for t in self.toks]
        try:
            if k == "rp":
                a, prio = op[1], op[2]
                tgt = self.tok_target(prio is not None)
                with call_as(env, self.actors[a]):
                    ev = tgt.reserve_put(prio) if prio is not None else tgt.reserve_put()
                self._newtok("p", ev, a, prio, None)
            elif k == "rg":
                a, prio, filt = op[1], op[2], op[3] if len(op) > 3 else None
                tgt = self.tok_target(prio is not None)
                with call_as(env, self.actors[a]):
                    if filt is not None:
                        ev = tgt.reserve_get(prio if prio is not None else 0, FILTERS[filt])
                    elif prio is not None:
                        ev = tgt.reserve_get(prio)
                    else:
                        ev = tgt.reserve_get()
                self._newtok("g", ev, a, prio, filt)
            elif k == "put":
                t = self.toks[op[1]]
                delay = op[2] if len(op) > 2 else 0
                color = op[3] if len(op) > 3 else "red"
                it = HItem(len(self.items), color, self.spec.get("ilen", 1))
                self._next_delay = delay
                rec = Itm(it, self.now, delay)
                with call_as(env, self.actors[t.actor]):
                    obs["ret"] = self.obj.put(t.ev, it)
                t.status = USED
                self.items.append(rec)
                self.puts_now += 1
                rec.x["put_seq"] = len(self.log)
                obs["item"] = rec
            elif k == "get":
                t = self.toks[op[1]]
                with call_as(env, self.actors[t.actor]):
                    r = self.obj.get(t.ev)
                t.status = USED
                obs["ret"] = r
                rec = None
                for x in self.items:
                    if x.obj is r:
                        rec = x
                obs["item"] = rec
                if rec is not None and rec.inside:
                    rec.inside = False
                    rec.t_get = self.now
                    obs["fresh"] = True
                else:
                    obs["fresh"] = False
            elif k == "cp":
                t = self.toks[op[1]]
                obs["was"] = t.status
                tgt = self.obj if hasattr(self.obj, "reserve_put_cancel") else self.store  # conveyors: nodes cancel through event.resourcename
                with call_as(env, self.actors[t.actor]):
                    obs["ret"] = tgt.reserve_put_cancel(t.ev)
                t.status = CANC
            elif k == "cg":
                t = self.toks[op[1]]
                obs["was"] = t.status
                tgt = self.obj if hasattr(self.obj, "reserve_get_cancel") else self.store
                with call_as(env, self.actors[t.actor]):
                    obs["ret"] = tgt.reserve_get_cancel(t.ev)
                t.status = CANC
            elif k == "step":
                self.steps_this_instant += 1
                if self.steps_this_instant > self.LIVELOCK_BUDGET:
                    raise Crash("livelock", RuntimeError("more than %d kernel events in one instant" % self.LIVELOCK_BUDGET))
                self.step_kernel()
            elif k == "adv":
                self.steps_this_instant = 0
                t_before = self.now
                self.step_kernel()
                if self.now > t_before:
                    self.puts_now = 0
            elif k == "advp":
                g = self.grid
                self.steps_this_instant = 0
                self.puts_now = 0
                env._now = (math.floor(self.now / g + 1e-9) + 1) * g
            else:
                raise ValueError(op)
        except Crash:
            raise
        except BaseException as e:  # noqa
            raise Crash(k, e)
        self.settle()
        if self.spec.get("drain"):
            n = 0
            try:
                while events_now(env):
                    self.step_kernel()
                    n += 1
                    if n > self.LIVELOCK_BUDGET:
                        raise Crash("livelock", RuntimeError("more than %d kernel events in one instant" % n))
            except Crash as c:
                c.where = "env.step"
                raise
        obs["t1"] = self.now
        granted = []
        for i, t in enumerate(self.toks):
            trig = t.ev.triggered
            if t.status == PENDING and trig:
                t.status = GRANTED
                t.t_grant = self.now
                t.grant_seq = len(self.log)
                granted.append(t)
        obs["granted"] = granted
        self.log.append(obs)
        return obs

    def _newtok(self, side, ev, a, prio, filt):
        t = Tok(len(self.toks), side, ev, a, prio, filt, self.narr, self.now)
        self.narr += 1
        self.toks.append(t)
        return t

    # ---------------------------------------------------------- observations
    def live(self, side=None):
        return [t for t in self.toks if t.live and (side is None or t.side == side)]

    def inside(self):
        return [x for x in self.items if x.inside]

    def held(self):
        return sum(1 for x in self.items if x.inside)

    def granted(self, side):
        return [t for t in self.toks if t.status == GRANTED and t.side == side]

    def waiting(self, side):
        return [t for t in self.toks if t.status == PENDING and t.side == side]

    def pub_occupancy(self):
        e = self.edge
        if e is None:
            return None
        for nm in ("occupancy", "get_occupancy"):
            f = getattr(e, nm, None)
            if f is not None:
                try:
                    return f()
                except NotImplementedError:
                    continue
        return None

    def pub_ready(self):
        """objects the subject publishes as available for retrieval (list), or None"""
        e = self.edge
        if e is None:
            return list(self.store.items)
        for nm in ("ready_items", "get_ready_items"):
            f = getattr(e, nm, None)
            if f is not None:
                try:
                    return list(f())
                except NotImplementedError:
                    continue
        r = getattr(self.store, "ready_items", None)   # the slotted conveyor publishes no accessor
        return list(r) if r is not None else None

    def container_scan(self):
        """identity scan of the real containers (optional cross-check; None if not found)"""
        s = self.store
        out = []
        try:
            for x in list(s.items) + list(getattr(s, "ready_items", [])):
                out.append(x[0] if isinstance(x, tuple) else x)
        except Exception:
            return None
        return out

    def item_ids(self):
        return {x.obj.id: x.obj for x in self.items if x.inside}


def replay(spec, hist, monitors=None, upto=None):
    """fresh World + history; monitors (callables creating monitor objects) observe every op.
    Returns (world, violations) ; a Crash in the last op is returned as world.crashed."""
    w = World(spec)
    mons = [m(w) for m in (monitors or [])]
    w.mons = mons
    viols = []
    for i, op in enumerate(hist):
        try:
            obs = w.apply(tuple(op))
        except Crash as c:
            w.crashed = (i, c)
            for m in mons:
                viols += m.on_crash(w, tuple(op), c) or []
            break
        for m in mons:
            viols += m.after(w, obs) or []
    return w, viols


# ---------------------------------------------------------------------------- ill-formed calls (C07)
def bad_calls(w):
    """menu of ill-formed calls available in this state: (name, thunk).  Each thunk performs the call on the
    real object and returns (exception or None, return value)."""
    env = w.env
    out = []
    A = w.actors

    def other(a):
        return A[(a + 1) % len(A)]

    def mk(name, actor, fn):
        def thunk():
            try:
                with call_as(env, actor):
                    r = fn()
                return None, r
            except BaseException as e:  # noqa
                return e, None
        out.append((name, thunk))

    junk = lambda: HItem(10 ** 6, "red", w.spec.get("ilen", 1))
    obj = w.obj

    class _C:   # conveyors: cancellation goes through the store (event.resourcename), as the nodes do it
        reserve_put_cancel = staticmethod((obj if hasattr(obj, "reserve_put_cancel") else w.store).reserve_put_cancel)
        reserve_get_cancel = staticmethod((obj if hasattr(obj, "reserve_get_cancel") else w.store).reserve_get_cancel)
    canc = _C
    # no reservation at all / a token the store has never seen
    mk("put(None)", A[0], lambda: obj.put(None, junk()))
    mk("get(None)", A[0], lambda: obj.get(None))
    mk("put(foreign event)", A[0], lambda: obj.put(env.event(), junk()))
    mk("get(foreign event)", A[0], lambda: obj.get(env.event()))
    mk("cancel_put(foreign event)", A[0], lambda: canc.reserve_put_cancel(env.event()))
    mk("cancel_get(foreign event)", A[0], lambda: canc.reserve_get_cancel(env.event()))
    last = {}
    for t in w.toks:
        last[(t.side, t.status)] = t
    for (side, status), t in sorted(last.items(), key=lambda kv: (kv[0][0], kv[0][1])):
        own = A[t.actor]
        if side == "p":
            if status == GRANTED and len(A) > 1:
                mk("put(other's granted token)", other(t.actor), lambda t=t: obj.put(t.ev, junk()))
            if status == GRANTED:
                mk("get(space token)", own, lambda t=t: obj.get(t.ev))
            if status == PENDING:
                mk("put(pending token)", own, lambda t=t: obj.put(t.ev, junk()))
            if status == USED:
                mk("put(used token)", own, lambda t=t: obj.put(t.ev, junk()))
                mk("cancel_put(used token)", own, lambda t=t: canc.reserve_put_cancel(t.ev))
            if status == CANC:
                mk("put(cancelled token)", own, lambda t=t: obj.put(t.ev, junk()))
                mk("cancel_put(cancelled token)", own, lambda t=t: canc.reserve_put_cancel(t.ev))
        else:
            if status == GRANTED and len(A) > 1:
                mk("get(other's granted token)", other(t.actor), lambda t=t: obj.get(t.ev))
            if status == GRANTED:
                mk("put(retrieval token)", own, lambda t=t: obj.put(t.ev, junk()))
            if status == PENDING:
                mk("get(pending token)", own, lambda t=t: obj.get(t.ev))
            if status == USED:
                mk("get(used token)", own, lambda t=t: obj.get(t.ev))
                mk("cancel_get(used token)", own, lambda t=t: canc.reserve_get_cancel(t.ev))
            if status == CANC:
                mk("get(cancelled token)", own, lambda t=t: obj.get(t.ev))
                mk("cancel_get(cancelled token)", own, lambda t=t: canc.reserve_get_cancel(t.ev))
    return out
