"""Per-property monitors for Engine S (DESIGN §3.4).

A monitor consumes only what a caller can observe (return values, exceptions,
token.triggered, returned objects, public queries) plus the explorer's ledger.
It returns violations as dicts; its own state is part of the hashed state.
"""
from .world import PENDING, GRANTED, USED, CANC, FILTERS
from .seams import events_now

EPS = 1e-9


def V(prop, clause, w, detail, **facets):
    return {"property": prop, "clause": clause, "subject": w.spec.label(), "kind": w.spec.kind,
            "detail": detail, "facets": {k: facets[k] for k in sorted(facets)}}


def key(t):
    return (t.prio if t.prio is not None else 0, t.arr)


class Monitor:
    prop = None

    def __init__(self, w):
        pass

    def after(self, w, obs):
        return []

    def on_crash(self, w, op, crash):
        return []

    def state(self, w):
        return None


# ---------------------------------------------------------------- availability tracker (shared)
class Avail(Monitor):
    """records the first instant each inside item is published as available"""

    def after(self, w, obs):
        pr = w.pub_ready()
        if pr is not None:
            ids = {id(x) for x in pr}
            for x in w.items:
                if x.inside and x.t_avail_obs is None and id(x.obj) in ids:
                    x.t_avail_obs = w.now
                    x.avail_seq = len(w.log)
        # an item that was got without ever being seen ready became available at the latest then
        it = obs.get("item")
        if obs["op"][0] == "get" and it is not None and it.t_avail_obs is None:
            it.t_avail_obs = obs["t"]
            it.avail_seq = len(w.log)
        return []

    def state(self, w):
        ins = w.inside()
        ts = sorted({x.avail_seq for x in ins if x.avail_seq is not None})
        return tuple((x.obj, None if x.avail_seq is None else ts.index(x.avail_seq)) for x in ins)


# ---------------------------------------------------------------- C01
class C01(Monitor):
    prop = "C01"

    def after(self, w, obs):
        out = []
        cap = w.spec.cap
        held = w.held()
        g = len(w.granted("p"))
        if held + g > cap:
            out.append(V("C01", "held+granted<=capacity", w,
                         "held=%d granted_space=%d capacity=%d after %r" % (held, g, cap, obs["op"]),
                         op=obs["op"][0]))
        occ = w.pub_occupancy()
        if occ is not None and occ > cap:
            out.append(V("C01", "occupancy<=capacity", w, "occupancy()=%r capacity=%d" % (occ, cap), op=obs["op"][0]))
        if obs["op"][0] == "put" and not obs["ret"]:
            out.append(V("C01", "granted-put-succeeds", w, "put returned %r" % (obs["ret"],), op="put"))
        return out

    def on_crash(self, w, op, crash):
        if op[0] == "put" and crash.where == "put":
            from .engine_f import crash_site
            return [V("C01", "granted-put-succeeds", w, "put with a granted reservation raised %s" % crash,
                      op="put", exc=type(crash.exc).__name__, site=crash_site(crash.exc)[0])]
        if crash.where in ("env.step",) and "exceeds capacity" in str(crash.exc):
            return [V("C01", "overflow-guard", w, str(crash), op=op[0])]
        return []


# ---------------------------------------------------------------- C02
class C02(Monitor):
    prop = "C02"

    def after(self, w, obs):
        out = []
        op = obs["op"]
        if op[0] == "get":
            it = obs.get("item")
            if it is None:
                out.append(V("C02", "get-returns-put-item", w, "get returned %r which was never put" % (obs["ret"],),
                             op="get"))
            elif not obs.get("fresh"):
                out.append(V("C02", "get-returns-distinct-item", w, "get returned %r a second time" % (it.obj,),
                             op="get"))
        scan = w.container_scan()
        if scan is not None:
            ins = w.inside()
            a = sorted(id(x) for x in scan)
            b = sorted(id(x.obj) for x in ins)
            if a != b:
                out.append(V("C02", "put=got+inside", w,
                             "containers hold %r, ledger says %r after %r" % (scan, [x.obj for x in ins], op),
                             op=op[0], dup=len(set(a)) != len(a)))
        occ = w.pub_occupancy()
        if occ is not None and occ != w.held():
            out.append(V("C02", "put=got+inside(count)", w, "occupancy()=%r, put-got=%d" % (occ, w.held()), op=op[0]))
        return out

    def on_crash(self, w, op, crash):
        if op[0] == "get" and crash.where == "get":
            t = w.toks[op[1]]
            canc = sum(1 for x in w.toks if x.side == "g" and x.status == CANC and x.t_grant is not None)
            return [V("C02", "granted-get-succeeds", w, "get with a granted reservation raised %s" % crash,
                      op="get", exc=type(crash.exc).__name__, after_cancel_of_granted=canc > 0,
                      mode=w.spec.get("mode", "FIFO"))]
        return []


# ---------------------------------------------------------------- C05
class C05(Monitor):
    prop = "C05"

    def after(self, w, obs):
        out = []
        for g in obs["granted"]:
            for t in w.waiting(g.side):
                if key(t) < key(g):
                    out.append(V("C05", "grant-order", w,
                                 "token %d (prio %r, arrival %d) granted while token %d (prio %r, arrival %d) still waits; op %r"
                                 % (g.idx, g.prio, g.arr, t.idx, t.prio, t.arr, obs["op"]),
                                 side=g.side, op=obs["op"][0], equal_prio=(g.prio == t.prio)))
                    return out
        return out


# ---------------------------------------------------------------- C04
class C04(Monitor):
    """reference predicate at instant-end; the poke probe lives in the engine (fork)"""
    prop = "C04"

    def after(self, w, obs):
        if events_now(w.env):
            return []
        return self.instant_end(w, obs)

    def matches(self, w, t, rec):
        if t.filt is not None:
            return FILTERS[t.filt](rec.obj)
        if w.spec.kind == "rpfs":
            return w.now >= rec.t_put + w.spec.get("td", 0) - EPS
        return True

    def instant_end(self, w, obs):
        out = []
        cap = w.spec.cap
        wp = w.waiting("p")
        if wp and w.spec.kind not in ("cconv", "sconv"):
            free = cap - w.held() - len(w.granted("p"))
            if free > 0:
                out.append(V("C04", "space-free-but-request-waiting", w,
                             "%d free unreserved slot(s), %d space request(s) waiting after %r at t=%s"
                             % (free, len(wp), obs["op"], w.now), side="p", op=obs["op"][0]))
        wg = w.waiting("g")
        if wg:
            head = min(wg, key=key)
            pr = w.pub_ready()
            if pr is not None:
                ids = {id(x) for x in pr}
                avail = [x for x in w.inside() if id(x.obj) in ids and self.matches(w, head, x)]
                ng = len(w.granted("g"))
                if len(avail) > ng:
                    out.append(V("C04", "item-available-but-request-waiting", w,
                                 "%d available item(s) matching the head request, %d granted retrieval(s), head still waiting after %r at t=%s"
                                 % (len(avail), ng, obs["op"], w.now), side="g", op=obs["op"][0]))
        return out


# ---------------------------------------------------------------- C06
class C06(Monitor):
    """possible-worlds reference for FIFO / LIFO / filter discipline"""
    prop = "C06"

    def __init__(self, w):
        self.mode = w.spec.get("mode", "FIFO")
        self.worlds = {frozenset()}
        self.ever = set()       # id(item obj) of unreserved items that were reserved and released
        self.err = None
        self.cancelled_granted = False

    def order_key(self, x):
        return x.avail_seq if x.avail_seq is not None else float("inf")

    def after(self, w, obs):
        out = []
        op = obs["op"]
        if op[0] == "cg" and obs.get("was") == GRANTED:
            tid = op[1]
            self.cancelled_granted = True
            for wd in self.worlds:
                for t, i in wd:
                    if t == tid:
                        self.ever.add(i)
            self.worlds = {frozenset(p for p in wd if p[0] != tid) for wd in self.worlds}
        if op[0] == "get" and obs.get("item") is not None:
            tid = op[1]
            it = obs["item"]
            tok = w.toks[tid]
            if tok.filt is not None and not FILTERS[tok.filt](it.obj):
                out.append(V("C06", "filter-respected", w,
                             "retrieval with filter %r returned %r (colour %r)" % (tok.filt, it.obj, it.obj.color),
                             op="get"))
            nw = {frozenset(p for p in wd if p[0] != tid) for wd in self.worlds if (tid, it.n) in wd}
            if not nw:
                out.append(V("C06", "discipline", w,
                             "get(token %d) returned %r; admissible bindings were %s (mode %s, availability order %s)"
                             % (tid, it.obj, sorted(sorted(wd) for wd in self.worlds), self.mode,
                                [(x.obj, x.avail_seq) for x in w.items if x.inside or x is it]),
                             op="get", mode=self.mode, after_cancel_of_granted=self.cancelled_granted,
                             filtered=tok.filt is not None))
                nw = {frozenset(p for p in wd if p[0] != tid) for wd in self.worlds}
            self.worlds = nw
            self.ever.discard(it.n)
        # grants are processed after the op's own effect (a get / cancel frees an item, then re-triggers)
        for g in sorted(obs["granted"], key=key):
            if g.side != "g":
                continue
            self.grant(w, g, out)
        return out

    def grant(self, w, g, out):
        pr = w.pub_ready()
        ids = None if pr is None else {id(x) for x in pr}
        inside = [x for x in w.inside() if ids is None or id(x.obj) in ids]
        nw = set()
        for wd in self.worlds:
            bound = {i for _, i in wd}
            unres = [x for x in inside if x.n not in bound]
            if g.filt is not None:
                unres = [x for x in unres if FILTERS[g.filt](x.obj)]
            elif w.spec.kind == "rpfs":
                unres = [x for x in unres if w.now >= x.t_put + w.spec.get("td", 0) - EPS]
            sgn = 1 if self.mode == "FIFO" else -1
            ok = lambda x: sgn * self.order_key(x)
            R = [x for x in unres if x.n in self.ever]
            N = [x for x in unres if x.n not in self.ever]
            picks = set(x.n for x in R)
            if N:
                m = min(ok(x) for x in N)
                for x in N:
                    if ok(x) == m and not any(ok(r) < ok(x) for r in R):
                        picks.add(x.n)
            for p in picks:
                nw.add(frozenset(wd | {(g.idx, p)}))
        if not nw:
            out.append(V("C06", "grant-backed-by-item", w,
                         "retrieval token %d granted but no admissible item: worlds %s" % (g.idx, sorted(sorted(x) for x in self.worlds)),
                         op="grant", mode=self.mode))
            nw = self.worlds
        self.worlds = nw

    def state(self, w):
        byn = {x.n: x.obj for x in w.items}
        tk = {t.idx: t.ev for t in w.toks}
        return (frozenset(frozenset((tk[t], byn[i]) for t, i in wd) for wd in self.worlds),
                frozenset(byn[i] for i in self.ever), self.cancelled_granted)


# ---------------------------------------------------------------- crash attribution (C20 at store level)
class C20S(Monitor):
    prop = "C20"

    def on_crash(self, w, op, crash):
        if op[0] in ("put", "get") and crash.where == op[0]:
            return []  # judged by C01 / C02
        from .engine_f import crash_site
        if crash.where == "livelock":
            return [V("C20", "no-livelock", w, "%s" % crash, op=op[0], where="livelock")]
        site, msg = crash_site(crash.exc)
        return [V("C20", "no-crash", w, "%s" % crash, where=crash.where if crash.where == "env.step" else "call", exc=type(crash.exc).__name__,
                  site=site)]


MONITORS = {"C01": [C01], "C02": [Avail, C02], "C04": [Avail, C04], "C05": [C05], "C06": [Avail, C06],
            "C20": [C20S]}


# ---------------------------------------------------------------- C14 (fleet)
class C14(Monitor):
    """batch / round-trip clauses of DESIGN §5 C14, from load times and observed availability times only"""
    prop = "C14"

    def __init__(self, w):
        self.tr = w.spec.get("transit", 1)
        self.delay = w.spec.get("delay", 2)
        self.seen = set()
        self.last_wake = 0.0    # start of the current waiting period: t = 0, every expiry (empty or not), every "full" instant
        self.fulls = []
        self.ticks = []

    def on_crash(self, w, op, crash):
        # well-formed calls only: an exception out of the fleet's own activation / trip process means that the items
        # on board are never delivered (the kernel run is dead) -- "delivered all at once, one round trip later" fails
        if crash.where == "env.step":
            waiting = [x.obj for x in w.inside() if x.t_avail_obs is None]
            from .engine_f import crash_site
            return [V("C14", "trip-completes", w, "the fleet's own activation / trip process raised %s after well-formed calls only (a trip for "
                      "items that are not waiting, or a trip that cannot finish); %d loaded item(s) not yet delivered, no later batch can be"
                      % (crash, len(waiting)), exc=type(crash.exc).__name__, site=crash_site(crash.exc)[0])]
        return []

    def _tick(self, now):
        while self.delay > 0 and self.last_wake + self.delay <= now + EPS:
            self.last_wake += self.delay
            self.ticks.append(self.last_wake)
        del self.ticks[:-8]
        del self.fulls[:-8]

    def after(self, w, obs):
        out = []
        op = obs["op"]
        tr2 = 2 * self.tr
        self._tick(w.now)
        if op[0] == "put":
            rec = obs["item"]
            rec.x["deadline"] = w.now + self.delay + tr2
            if w.held() >= w.spec.cap:
                self._tick(w.now)
                self.fulls.append(w.now)
                self.last_wake = w.now
                for x in w.inside():
                    if x.t_avail_obs is None:
                        x.x["deadline"] = min(x.x.get("deadline", float("inf")), w.now + tr2)
                        x.x["full"] = True
        # newly available items
        new = [x for x in w.items if x.t_avail_obs is not None and x.n not in self.seen]
        if new:
            for x in new:
                self.seen.add(x.n)
                if x.t_avail_obs - x.t_put < tr2 - EPS:
                    out.append(V("C14", "a-full-round-trip", w,
                                 "%r loaded at %s is available at %s, less than a round trip (%s) later"
                                 % (x.obj, x.t_put, x.t_avail_obs, tr2), loaded_during_trip=True))
            # departure rule: the trip that delivers now left at D = now - round trip; D must be an instant at which the fleet
            # became full, or the end of a waiting period (periods restart at every departure and every empty expiry; a period
            # counted from the load of an item of the batch is accepted too)
            for A in sorted({x.t_avail_obs for x in new}):
                D = A - tr2
                batch = [x for x in new if x.t_avail_obs == A]
                ok = any(abs(D - f) < EPS for f in self.fulls) or any(abs(D - t) < EPS for t in self.ticks) \
                    or any(abs(D - (x.t_put + self.delay)) < EPS for x in batch)
                if not ok:
                    out.append(V("C14", "e-departs-only-when-full-or-delay-expired", w,
                                 "batch %s became available at %s, so its trip left at %s: the fleet did not become full then (capacity %d) and no waiting period of %s ended then (recent period ends %s)"
                                 % ([x.obj for x in batch], A, D, w.spec.cap, self.delay, self.ticks[-3:]), early=True))
            pr = w.pub_ready()
            if pr is not None:
                pos = {id(o): i for i, o in enumerate(pr)}
                newin = sorted((x for x in new if id(x.obj) in pos), key=lambda x: pos[id(x.obj)])
                ns = [x.n for x in newin]
                if ns != sorted(ns):
                    out.append(V("C14", "d-loading-order", w, "batch published as %s, loading order is %s"
                                 % ([x.obj for x in newin], sorted(ns)), n=len(ns)))
        if not events_now(w.env):
            for x in w.inside():
                if x.t_avail_obs is not None:
                    continue
                dl = x.x.get("deadline")
                if dl is not None and w.now >= dl - EPS:
                    out.append(V("C14", "b-capacity-departure" if x.x.get("full") else "a-max-wait", w,
                                 "%r loaded at %s is still not available at the end of instant %s (deadline %s: %s)"
                                 % (x.obj, x.t_put, w.now, dl,
                                    "fleet full + round trip" if x.x.get("full") else "delay + round trip"),
                                 full=bool(x.x.get("full"))))
                    break
            batch = [x for x in w.items if x.t_avail_obs is not None and abs(x.t_avail_obs - w.now) < EPS]
            if batch and w.waiting("g"):
                pr = w.pub_ready() or []
                if len(pr) > len(w.granted("g")):
                    out.append(V("C14", "batch-available-together", w,
                                 "batch %s arrived at %s but only %d of the destination's %d retrieval request(s) were served although %d item(s) are ready"
                                 % ([b.obj for b in batch], w.now, len(w.granted("g")), len(w.granted("g")) + len(w.waiting("g")), len(pr)),
                                 waiting=True))
            if batch:
                D = w.now - tr2
                for x in w.inside():
                    if x.t_avail_obs is None and x.t_put < D - EPS:
                        out.append(V("C14", "c-batch-integrity", w,
                                     "batch %s became available at %s (departure %s) but %r, loaded at %s before the departure, was left behind"
                                     % ([b.obj for b in batch], w.now, D, x.obj, x.t_put), left_behind=True))
                        break
        return out

    def state(self, w):
        g = w.grid
        ph = round(w.now - self.last_wake, 6)
        return (ph,) + tuple((x.obj, round(max(x.x.get("deadline", 0) - w.now, -g), 9), bool(x.x.get("full")),
                      round(max(x.t_put - w.now, -w.spec.get("age_cap", 4)), 9), x.t_avail_obs is not None,
                      x.t_avail_obs is not None and abs(x.t_avail_obs - w.now) < EPS)
                     for x in w.inside())


MONITORS["C14"] = [Avail, C14]


# ---------------------------------------------------------------- C11 (lock-step part)
class C11(Monitor):
    prop = "C11"

    def __init__(self, w):
        self.calls = w.delay_calls

    def after(self, w, obs):
        out = []
        op = obs["op"]
        if op[0] == "put" and w.spec.kind == "buffer":
            d = w.delay_calls - self.calls
            if d != 1:
                out.append(V("C11", "delay-drawn-once", w, "the delay callable was consulted %d times for one put" % d, n=d))
        self.calls = w.delay_calls
        if op[0] == "get" and obs.get("item") is not None and w.spec.kind == "buffer":
            x = obs["item"]
            if w.now < x.t_put + x.delay - EPS:
                out.append(V("C11", "not-before-t+d", w, "%r put at %s with delay %s was retrieved at %s" % (x.obj, x.t_put, x.delay, w.now),
                             via="get"))
        if w.spec.kind == "buffer":
            pr = w.pub_ready()
            ids = {id(o) for o in pr} if pr is not None else set()
            for x in w.inside():
                due = x.t_put + x.delay
                if id(x.obj) in ids and w.now < due - EPS:
                    out.append(V("C11", "not-before-t+d", w, "%r put at %s with delay %s is offered as ready at %s" % (x.obj, x.t_put, x.delay, w.now),
                                 via="ready_items"))
                    break
                if pr is not None and not events_now(w.env) and w.now >= due - EPS and id(x.obj) not in ids:
                    out.append(V("C11", "retrievable-from-t+d", w, "%r put at %s with delay %s is still not ready at the end of instant %s" % (x.obj, x.t_put, x.delay, w.now),
                                 via="ready_items"))
                    break
        occ = w.pub_occupancy()
        if occ is not None and occ != w.held():
            out.append(V("C11", "occupancy-counts-all", w, "occupancy reported %r, items inside (in transit + ready) %d" % (occ, w.held()), op=op[0]))
        return out


MONITORS["C11"] = [C11]
MONITORS["C07"] = []


class C07(Monitor):
    """keeps 'a used / a cancelled token of each side exists' in the hashed state, so that the ill-formed
    calls on dead tokens are tried in every store state and not only where the shortest history has one"""
    prop = "C07"

    def state(self, w):
        return tuple(sorted({(t.side, t.status) for t in w.toks if not t.live}))


MONITORS["C07"] = [C07]


def _register_conveyor():
    from . import conveyor_ref as cr
    MONITORS["C12"] = [Avail, cr.C12]
    MONITORS["C13"] = [Avail, cr.C13]


_register_conveyor()
