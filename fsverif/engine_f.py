"""Engine F — stateless exhaustive exploration of small factories on the real nodes and edges (DESIGN §4).

A run = one configuration + one sequence of answers to the choice points (delay callables, selector
callables, the RANDOM policy's random source).  Exploration enumerates every answer sequence that deviates
from the default answer (menu[0]) at most `bound` times (CHESS-style), each run executed kernel event by
kernel event under the ledger.
"""
import collections, time, json, hashlib, traceback
import simpy
from . import seams

INF = float("inf")
EPS = 1e-9


class Chooser:
    def __init__(self, prefix):
        self.prefix = list(prefix)
        self.log = []       # (name, n_alternatives, chosen index)

    def choose(self, name, n):
        i = len(self.log)
        if i < len(self.prefix):
            c = self.prefix[i]
            if c >= n:
                raise RuntimeError("harness nondeterminism: choice %d out of range %d at point %d (%s)" % (c, n, i, name))
        else:
            c = 0
        self.log.append((name, n, c))
        return c


class FakeRandom:
    def __init__(self, ch):
        self.ch = ch

    def randint(self, a, b):
        return a + self.ch.choose("random.randint", b - a + 1)

    def __getattr__(self, k):
        raise AttributeError("harness random source only provides randint (asked for %s)" % k)


CUR = None  # ledger of the run being executed (tracking item classes register here)


def _mk_tracking():
    src = seams.mod("nodes.source")
    Item = seams.mod("helper.item").Item
    Pallet = seams.mod("helper.pallet").Pallet

    class TList(list):
        def __init__(self, owner):
            list.__init__(self)
            self.owner = owner

        def pop(self, *a):
            x = list.pop(self, *a)
            if CUR is not None:
                CUR.on_unpack(self.owner, x)
            return x

    class TItem(Item):
        def __init__(self, id):
            Item.__init__(self, id)
            if CUR is not None:
                CUR.on_create(self)

    class TPallet(Pallet):
        def __init__(self, id):
            Pallet.__init__(self, id)
            self.items = TList(self)
            if CUR is not None:
                CUR.on_create(self)

        def add_item(self, item):
            Pallet.add_item(self, item)
            if CUR is not None:
                CUR.on_pack(self, item)

    return TItem, TPallet


class StatsDict(dict):
    """node.stats replacement: reports every increment of the discard counter with the item in hand"""

    def __init__(self, d, node, led):
        dict.__init__(self, d)
        self._node, self._led = node, led

    def __setitem__(self, k, v):
        if k == "num_item_discarded":
            old = self.get(k, 0)
            dict.__setitem__(self, k, v)
            self._led.on_discard_counter(self._node, old, v)
        else:
            dict.__setitem__(self, k, v)


class TokRec:
    __slots__ = ("ev", "side", "edge", "proc", "node", "t_issue", "status", "t_grant", "t_end", "batch", "was_triggered", "checked")

    def __init__(self, ev, side, edge, proc, node, t):
        self.ev, self.side, self.edge, self.proc, self.node, self.t_issue = ev, side, edge, proc, node, t
        self.status = "pending"
        self.t_grant = None
        self.t_end = None
        self.batch = None
        self.was_triggered = False
        self.checked = False


class Ledger:
    """everything the monitors know: store calls, item locations, tokens, discards, choice answers"""

    def __init__(self, env, cfg, chooser):
        self.env, self.cfg, self.ch = env, cfg, chooser
        self.events = []          # (t, kind, edge_id, node_id, item_id, extra)
        self.loc = {}             # id(item) -> location tuple
        self.items = []           # created flow items in creation order
        self.tokens = []
        self.tok_by_ev = {}
        self.discards = []        # (t, node_id, item or None)
        self.viol = []
        self.nodes = {}
        self.edges = {}
        self.store_edge = {}      # id(store) -> edge
        self.pulls = collections.defaultdict(list)    # node_id -> [(t, item, edge_idx)]
        self.pushes = collections.defaultdict(list)   # node_id -> [(t, item, edge_idx)]
        self.offers = {}          # id(item),node_id -> first offer time
        self.canput = []          # (t, node_id, edge_id, answer, room_pred)
        self.asks = {}            # id(item) -> [(t, edge_id, answer, room)] : can_put questions asked on behalf of that item
        self.discard_asks = []    # (t, node_id, item, [asks of that item in this instant])
        self.discard_rooms = []   # (t, node_id, item, [(edge_id, room)]): every out-edge's room when a FIRST_AVAILABLE node drops an item
        self.draws = collections.defaultdict(list)    # point name -> [(t, value)]
        self.occ_hist = collections.defaultdict(list)  # edge_id -> [(t, occupancy after event)]
        self.crash = None
        self.procs = []
        self.batch_no = 0
        self.batch_open = {}      # id(process) -> batch number of the reservations it is currently collecting

    def held_by_processes(self, node):
        """ids of the objects that live processes of `node` (or its *_in_process attributes) still reference"""
        out = set()
        for a in ("item_in_process", "pallet_in_process"):
            x = getattr(node, a, None)
            if x is not None:
                out.add(id(x))
        for p in self.procs:
            if not p.is_alive:
                continue
            fr = getattr(p._generator, "gi_frame", None)
            if fr is None or fr.f_locals.get("self") is not node:
                continue
            for v in fr.f_locals.values():
                out.add(id(v))
        self.procs = [p for p in self.procs if p.is_alive]
        return out

    # -- who is calling
    def caller(self):
        p = self.env.active_process
        node = None
        if p is not None:
            g = getattr(p, "_generator", None)
            fr = getattr(g, "gi_frame", None)
            if fr is not None:
                node = fr.f_locals.get("self")
        return p, node

    def frame_item(self, p):
        g = getattr(p, "_generator", None)
        fr = getattr(g, "gi_frame", None)
        if fr is None:
            return None
        for k in ("item", "item_to_push"):
            if k in fr.f_locals:
                return fr.f_locals[k]
        return None

    def nid(self, node):
        return getattr(node, "id", None)

    def V(self, prop, clause, detail, **fac):
        self.viol.append({"property": prop, "clause": clause, "detail": detail, "kind": "factory",
                          "facets": {k: fac[k] for k in sorted(fac)}, "t": self.env.now})

    # -- item life cycle
    def on_create(self, it):
        p, node = self.caller()
        self.items.append(it)
        self.loc[id(it)] = ("source", self.nid(node))
        self.events.append((self.env.now, "create", None, self.nid(node), it.id, None))

    def on_pack(self, pallet, it):
        l = self.loc.get(id(it))
        if l is None or l[0] != "node":
            self.V("C03", "one-place", "item %s packed into %s while the ledger has it at %r" % (it.id, pallet.id, l), op="pack")
        self.loc[id(it)] = ("pallet", pallet.id)
        self.events.append((self.env.now, "pack", None, l[1] if l else None, it.id, pallet.id))

    def on_unpack(self, pallet, it):
        p, node = self.caller()
        l = self.loc.get(id(it))
        if l != ("pallet", pallet.id):
            self.V("C03", "one-place", "item %s unpacked from %s while the ledger has it at %r" % (getattr(it, "id", it), pallet.id, l), op="unpack")
        self.loc[id(it)] = ("node", self.nid(node))
        self.events.append((self.env.now, "unpack", None, self.nid(node), getattr(it, "id", None), pallet.id))

    def on_discard_counter(self, node, old, new):
        p, n2 = self.caller()
        it = self.frame_item(p)
        if new != old + 1:
            self.V("C09", "discard-count-by-one", "%s changed its discard counter from %r to %r" % (node.id, old, new), node=type(node).__name__)
        self.discards.append((self.env.now, node.id, it))
        if getattr(node, "out_edge_selection", None) == "FIRST_AVAILABLE":
            self.discard_rooms.append((self.env.now, node.id, it, [(e.id, self.room(e)) for e in (node.out_edges or [])
                                                                   if type(e).__name__ in ("Buffer", "Fleet")]))
        if it is not None:
            self.discard_asks.append((self.env.now, node.id, it, [a for a in self.asks.get((id(it), node.id), []) if abs(a[0] - self.env.now) < 1e-9]))
        if it is not None:
            l = self.loc.get(id(it))
            if l is not None and l[0] in ("node", "source") and l[1] == node.id:
                self.loc[id(it)] = ("discarded", node.id)
            else:
                self.V("C03", "one-place", "%s counted a discard of %s which the ledger has at %r" % (node.id, getattr(it, "id", it), l), op="discard")
        self.events.append((self.env.now, "discard", None, node.id, getattr(it, "id", None), None))

    # -- wrappers
    def wrap_edge(self, e):
        st = getattr(e, "inbuiltstore", None) or getattr(e, "belt", None)
        self.store_edge[id(st)] = e
        led = self

        def mk_reserve(side, orig):
            def f(*a, **k):
                p, node = led.caller()
                ev = orig(*a, **k)
                t = TokRec(ev, side, e, p, node, led.env.now)
                # a batch = the reservations one process issues before it uses or withdraws any of them
                if id(p) not in led.batch_open:
                    led.batch_no += 1
                    led.batch_open[id(p)] = led.batch_no
                t.batch = led.batch_open[id(p)]
                led.tokens.append(t)
                led.tok_by_ev[id(ev)] = t
                it = led.frame_item(p)
                if side == "p" and it is not None and node is not None:
                    led.offers.setdefault((id(it), node.id), led.env.now)
                led.events.append((led.env.now, "reserve_" + side, e.id, led.nid(node), None, None))
                return ev
            return f

        def mk_cancel(side, orig):
            def f(ev, *a, **k):
                r = orig(ev, *a, **k)
                t = led.tok_by_ev.get(id(ev))
                if t is not None:
                    t.status = "cancelled"
                    t.t_end = led.env.now
                    t.was_triggered = bool(ev.triggered)
                    led.batch_open.pop(id(t.proc), None)
                led.events.append((led.env.now, "cancel_" + side, e.id, None, None, None))
                return r
            return f

        def put(ev, x, *a, **k):
            p, node = led.caller()
            it = x[0] if isinstance(x, tuple) else x
            r = orig_put(ev, x, *a, **k)
            t = led.tok_by_ev.get(id(ev))
            if t is not None:
                t.status = "used"
                t.t_end = led.env.now
                led.batch_open.pop(id(t.proc), None)
            l = led.loc.get(id(it))
            if l is None:
                led.V("C03", "one-place", "unknown object %r put into %s" % (it, e.id), op="put")
            elif l[0] not in ("node", "source"):
                led.V("C03", "one-place", "item %s put into %s while the ledger has it at %r" % (it.id, e.id, l), op="put")
            led.loc[id(it)] = ("edge", e.id)
            nidx = led.edge_index(node, e, "out")
            led.pushes[led.nid(node)].append((led.env.now, it, nidx))
            led.events.append((led.env.now, "put", e.id, led.nid(node), getattr(it, "id", None), None))
            led.occ_hist[e.id].append((led.env.now, +1))
            return r

        def get(ev, *a, **k):
            p, node = led.caller()
            it = orig_get(ev, *a, **k)
            t = led.tok_by_ev.get(id(ev))
            if t is not None:
                t.status = "used"
                t.t_end = led.env.now
                led.batch_open.pop(id(t.proc), None)
            l = led.loc.get(id(it))
            if l != ("edge", e.id):
                led.V("C03", "one-place", "get on %s returned %r which the ledger has at %r" % (e.id, getattr(it, "id", it), l), op="get")
            kind = "sink" if type(node).__name__ == "Sink" else "node"
            led.loc[id(it)] = (kind, led.nid(node))
            nidx = led.edge_index(node, e, "in")
            led.pulls[led.nid(node)].append((led.env.now, it, nidx))
            led.events.append((led.env.now, "get", e.id, led.nid(node), getattr(it, "id", None), None))
            led.occ_hist[e.id].append((led.env.now, -1))
            return it

        orig_put, orig_get = st.put, st.get
        st.reserve_put = mk_reserve("p", st.reserve_put)
        st.reserve_get = mk_reserve("g", st.reserve_get)
        st.reserve_put_cancel = mk_cancel("p", st.reserve_put_cancel)
        st.reserve_get_cancel = mk_cancel("g", st.reserve_get_cancel)
        st.put = put
        st.get = get
        for q in ("can_put", "can_get"):
            oq = getattr(e, q, None)
            if oq is None:
                continue

            def mkq(q, oq):
                def f():
                    p, node = led.caller()
                    ans = oq()
                    if q == "can_put":
                        it = led.frame_item(p)
                        if it is not None and node is not None:
                            led.offers.setdefault((id(it), node.id), led.env.now)
                        led.canput.append((led.env.now, led.nid(node), e.id, bool(ans), led.room(e), tuple(led.live_tokens(e, "p", "granted"))))
                        if it is not None:
                            led.asks.setdefault((id(it), led.nid(node)), []).append((led.env.now, e.id, bool(ans), led.room(e)))
                    led.events.append((led.env.now, q, e.id, led.nid(node), None, bool(ans)))
                    return ans
                return f
            setattr(e, q, mkq(q, oq))

    def edge_index(self, node, e, side):
        if node is None:
            return None
        lst = getattr(node, side + "_edges", None) or []
        for i, x in enumerate(lst):
            if x is e:
                return i
        return None

    # -- reference predicates over the ledger
    def held(self, e):
        return sum(1 for l in self.loc.values() if l == ("edge", e.id))

    def live_tokens(self, e=None, side=None, status=None):
        return [t for t in self.tokens if t.status in ("pending", "granted") and (e is None or t.edge is e)
                and (side is None or t.side == side) and (status is None or t.status == status)]

    def room(self, e):
        """free, unreserved space according to the ledger (buffers / fleets)"""
        g = len(self.live_tokens(e, "p", "granted"))
        return e.capacity - self.held(e) - g

    def poll_tokens(self):
        for t in self.tokens:
            if t.status == "pending" and t.ev.triggered:
                t.status = "granted"
                t.t_grant = self.env.now


# ------------------------------------------------------------------------------------------- building
def build(cfg, chooser):
    """cfg: dict(nodes=[...], edges=[...], order=..., until=...) -> (env, ledger)"""
    global CUR
    seams.load_all()
    class TEnv(simpy.Environment):
        """process registry: every generator started through env.process is known to the ledger"""

        def process(self, generator):
            p = simpy.Environment.process(self, generator)
            led.procs.append(p)
            return p

    env = TEnv()
    led = Ledger(env, cfg, chooser)
    CUR = led
    TItem, TPallet = _mk_tracking()
    srcmod = seams.mod("nodes.source")
    srcmod.Item, srcmod.Pallet = TItem, TPallet
    if cfg.get("real_random") is not None:
        import random as _random
        _random.seed(cfg["real_random"])
        seams.mod("utils.utils").random = _random
    else:
        seams.mod("utils.utils").random = FakeRandom(chooser)

    def delay_src(spec, name, limit=None):
        """spec: number | ("call"|"gen", menu[, limit]) ; limit: after that many draws answer 1e6 (finite input)"""
        if not isinstance(spec, (list, tuple)):
            return spec
        kind, menu = spec[0], spec[1]
        lim = spec[2] if len(spec) > 2 else None
        cnt = [0]

        def draw():
            if lim is not None and cnt[0] >= lim:
                v = 10 ** 6
            else:
                v = menu[chooser.choose(name, len(menu))] if len(menu) > 1 else menu[0]
            cnt[0] += 1
            led.draws[name].append((env.now, v))
            return v
        if kind == "call":
            return draw

        def gen():
            while True:
                yield draw()
        return gen()

    def policy(spec, name, n):
        if isinstance(spec, (list, tuple)):
            kind = spec[0]
            menu = spec[1] if len(spec) > 1 else list(range(n))

            def draw():
                v = menu[chooser.choose(name, len(menu))] if len(menu) > 1 else menu[0]
                led.draws[name].append((env.now, v))
                return v
            if kind == "call":
                return draw
            if kind == "cycle":
                def cyc():
                    k = 0
                    while True:
                        v = menu[k % len(menu)]
                        k += 1
                        led.draws[name].append((env.now, v))
                        yield v
                return cyc()

            def gen():
                while True:
                    yield draw()
            return gen()
        return spec

    def mk_node(nd):
        t = nd["t"]
        nid = nd["id"]
        nin = sum(1 for e in cfg["edges"] if e["dst"] == nid)
        nout = sum(1 for e in cfg["edges"] if e["src"] == nid)
        if t == "source":
            n = srcmod.Source(env, nid, inter_arrival_time=delay_src(nd.get("iat", 1), "iat:" + nid),
                              blocking=nd.get("blocking", True), out_edge_selection=policy(nd.get("out_pol", "FIRST_AVAILABLE"), "sel:%s:out" % nid, nout),
                              flow_item_type=nd.get("flow", "item"), item_length=nd.get("ilen", 1))
        elif t == "machine":
            n = seams.mod("nodes.machine").Machine(
                env, nid, node_setup_time=nd.get("setup", 0), work_capacity=nd.get("wc", 1),
                processing_delay=delay_src(nd.get("pd", 1), "pd:" + nid), blocking=nd.get("blocking", True),
                in_edge_selection=policy(nd.get("in_pol", "FIRST_AVAILABLE"), "sel:%s:in" % nid, nin),
                out_edge_selection=policy(nd.get("out_pol", "FIRST_AVAILABLE"), "sel:%s:out" % nid, nout))
        elif t == "sink":
            n = seams.mod("nodes.sink").Sink(env, nid)
        elif t == "splitter":
            n = seams.mod("nodes.splitter").Splitter(
                env, nid, node_setup_time=nd.get("setup", 0), processing_delay=delay_src(nd.get("pd", 1), "pd:" + nid),
                blocking=nd.get("blocking", True),
                in_edge_selection=policy(nd.get("in_pol", "FIRST_AVAILABLE"), "sel:%s:in" % nid, nin),
                out_edge_selection=policy(nd.get("out_pol", "FIRST_AVAILABLE"), "sel:%s:out" % nid, nout))
        elif t == "combiner":
            n = seams.mod("nodes.combiner").Combiner(
                env, nid, node_setup_time=nd.get("setup", 0), processing_delay=delay_src(nd.get("pd", 1), "pd:" + nid),
                blocking=nd.get("blocking", True), target_quantity_of_each_item=nd.get("recipe", [1, 1]),
                out_edge_selection=policy(nd.get("out_pol", "FIRST_AVAILABLE"), "sel:%s:out" % nid, nout))
        else:
            raise ValueError(t)
        n.stats = StatsDict(n.stats, n, led)
        led.nodes[nid] = n
        return n

    def mk_edge(ed):
        t = ed["t"]
        eid = ed["id"]
        if t == "buffer":
            e = seams.mod("edges.buffer").Buffer(env, eid, capacity=ed.get("cap", 1),
                                                 delay=delay_src(ed.get("delay", 0), "bd:" + eid), mode=ed.get("mode", "FIFO"))
        elif t == "fleet":
            e = seams.mod("edges.fleet").Fleet(env, eid, capacity=ed.get("cap", 2), delay=ed.get("delay", 2),
                                               transit_delay=ed.get("transit", 1))
        elif t == "cconv":
            e = seams.mod("edges.continuous_conveyor").ConveyorBelt(
                env, eid, conveyor_length=ed.get("clen", 2), speed=ed.get("speed", 1), item_length=ed.get("ilen", 1),
                accumulating=ed.get("acc", 1))
        elif t == "sconv":
            e = seams.mod("edges.slotted_conveyor").ConveyorBelt(
                env, eid, capacity=ed.get("cap", 2), delay=ed.get("delay", 1), accumulating=ed.get("acc", 1))
        else:
            raise ValueError(t)
        led.edges[eid] = e
        led.wrap_edge(e)
        return e

    order = cfg.get("order", "nodes_first")
    nodes = list(cfg["nodes"])
    edges = list(cfg["edges"])
    if order == "reversed":
        nodes = nodes[::-1]
    if order == "edges_first":
        for ed in edges:
            mk_edge(ed)
        for nd in nodes:
            mk_node(nd)
    else:
        for nd in nodes:
            mk_node(nd)
        for ed in edges:
            mk_edge(ed)
    conn = list(cfg["edges"])
    if cfg.get("connect") == "reversed":
        # connection order decides edge indices; only the order among edges of *different* nodes is reversed
        conn = sorted(conn, key=lambda e: -cfg["edges"].index(e))
        conn.sort(key=lambda e: 0)  # stable no-op: keep documented
    for ed in conn:
        led.edges[ed["id"]].connect(led.nodes[ed["src"]], led.nodes[ed["dst"]])
    if cfg.get("rewire"):
        # the wiring step applied a second time (documented: connect(..., reconnect=True)) must leave the model as it was
        for ed in conn:
            led.edges[ed["id"]].connect(led.nodes[ed["src"]], led.nodes[ed["dst"]], reconnect=True)
    return env, led


# ------------------------------------------------------------------------------------------- running
class RunResult:
    __slots__ = ("viol", "choices", "digest", "moved", "events", "steps", "crash", "instants", "led")


def run(cfg, prefix, monitors, budget=20000, keep=False):
    global CUR
    ch = Chooser(prefix)
    res = RunResult()
    res.crash = None
    led = None
    try:
        env, led = build(cfg, ch)
    except BaseException as e:  # noqa
        res.viol = []
        res.choices = ch.log
        res.crash = ("build", e, traceback.format_exc())
        res.digest = "build-crash:%s" % type(e).__name__
        res.moved = 0
        res.events = 0
        res.steps = 0
        res.instants = 0
        res.led = None
        CUR = None
        return res
    mons = [m(led) for m in monitors]
    until = cfg.get("until", 12)
    steps = 0
    inst_steps = 0
    instants = 0
    last_t = env.now
    try:
        while env._queue and env._queue[0][0] < until:
            t_next = env._queue[0][0]
            if t_next > env.now:
                inst_steps = 0
            try:
                env.step()
            except simpy.core.EmptySchedule:
                break
            steps += 1
            inst_steps += 1
            if env.now < last_t - EPS:
                led.V("C19", "time-monotone", "clock went from %s to %s" % (last_t, env.now))
            last_t = env.now
            led.poll_tokens()
            for m in mons:
                m.on_step(led)
            if not env._queue or env._queue[0][0] > env.now:
                instants += 1
                for m in mons:
                    m.on_instant_end(led)
            if inst_steps > budget:
                res.crash = ("livelock", RuntimeError("more than %d kernel events at t=%s" % (budget, env.now)), "")
                break
            if led.viol and not keep:
                break
    except BaseException as e:  # noqa
        res.crash = ("step", e, traceback.format_exc())
    if res.crash is None and not led.viol:
        env._now = max(env.now, until) if True else env.now
        for m in mons:
            m.on_finish(led, until)
    CUR = None
    res.viol = led.viol
    res.choices = ch.log
    res.events = len(led.events)
    res.moved = sum(1 for e in led.events if e[1] in ("put", "get"))
    res.steps = steps
    res.instants = instants
    h = hashlib.blake2b(digest_size=10)
    for e in led.events:
        h.update(repr((round(e[0], 9), e[1], e[2], e[3], e[4], e[5])).encode())
    if cfg.get("digest_stats"):
        for nid in sorted(led.nodes):
            h.update(repr(sorted((k, v) for k, v in led.nodes[nid].stats.items())).encode())
        for eid in sorted(led.edges):
            h.update(repr(sorted((k, v) for k, v in led.edges[eid].stats.items())).encode())
    res.digest = h.hexdigest()
    res.led = led if keep else None
    return res


class FMonitor:
    prop = None

    def __init__(self, led):
        pass

    def on_step(self, led):
        pass

    def on_instant_end(self, led):
        pass

    def on_finish(self, led, T):
        pass


def crash_site(e):
    """innermost library frame of an exception: 'file.py:function'"""
    import os, re
    site = "?"
    try:
        x = e
        for _ in range(6):  # simpy re-raises process failures as a copy whose __cause__ is the original
            if x is None:
                break
            for fr in traceback.extract_tb(x.__traceback__):
                if "factorysimpy" in fr.filename:
                    site = "%s:%s" % (os.path.basename(fr.filename), fr.name)
            x = x.__cause__
    except Exception:
        pass
    msg = re.sub(r"0x[0-9a-f]+", "0x", str(e))
    msg = re.sub(r"[0-9]+(\.[0-9]+)?", "N", msg)[:60]
    return site, msg


def explore(cfg, monitors, bound, prop, crash_is_violation=False, max_runs=200000, max_seconds=600, seed=0):
    """all runs of cfg whose choice sequence deviates from the default at most `bound` times"""
    t0 = time.time()
    out = {"runs": 0, "steps": 0, "violations": [], "digests": set(), "crashes": 0, "crash_samples": [],
           "capped": None, "choice_points_max": 0, "moved_runs": 0, "samples": []}
    sigs = set()
    stack = [((), 0)]
    while stack:
        if out["runs"] >= max_runs or time.time() - t0 > max_seconds:
            out["capped"] = {"runs": out["runs"], "seconds": round(time.time() - t0, 1), "stack_left": len(stack)}
            break
        prefix, ndev = stack.pop()
        r = run(cfg, prefix, monitors)
        out["runs"] += 1
        out["steps"] += r.steps
        out["choice_points_max"] = max(out["choice_points_max"], len(r.choices))
        if r.moved:
            out["moved_runs"] += 1
            out["digests"].add(r.digest)
        if len(out["samples"]) < 2 or (len(prefix) and len(out["samples"]) < 4):
            out["samples"].append({"choices": [c[2] for c in r.choices], "points": [c[0] for c in r.choices][:12], "events": r.events})
        vs = [v for v in r.viol if v["property"] == prop]
        if cfg.get("expect_error"):
            if r.crash is None and prop in cfg.get("expect_props", ["C20"]):
                vs.append({"property": prop, "clause": "invalid-config-rejected", "kind": "factory",
                           "detail": "%s was simulated to t=%s without any error (%d item movements)" % (cfg.get("why"), cfg.get("until"), r.moved),
                           "facets": {"why": cfg.get("why")}, "t": None})
            elif r.crash is not None and r.crash[0] == "livelock" and prop in cfg.get("expect_props", ["C20"]):
                # the harness's own event budget ended the run: the model was accepted and simulated (into a zero-time loop), not rejected
                vs.append({"property": prop, "clause": "invalid-config-rejected", "kind": "factory",
                           "detail": "%s was accepted and simulated into a zero-time loop (%s)" % (cfg.get("why"), str(r.crash[1])[:120]),
                           "facets": {"why": cfg.get("why"), "livelock": True}, "t": None})
            else:
                out["counted_rejections"] = out.get("counted_rejections", 0) + 1
        elif r.crash is not None:
            out["crashes"] += 1
            if len(out["crash_samples"]) < 3:
                out["crash_samples"].append({"choices": [c[2] for c in r.choices], "where": r.crash[0],
                                             "exc": "%s: %s" % (type(r.crash[1]).__name__, str(r.crash[1])[:200])})
            if crash_is_violation:
                vs.append({"property": prop, "clause": "no-crash" if r.crash[0] != "livelock" else "no-livelock", "kind": "factory",
                           "detail": "%s: %s: %s" % (r.crash[0], type(r.crash[1]).__name__, str(r.crash[1])[:300]),
                           "facets": {"where": r.crash[0], "exc": type(r.crash[1]).__name__, "site": crash_site(r.crash[1])[0],
                                      "msg": crash_site(r.crash[1])[1]}, "t": None})
                if r.crash[0] == "livelock":
                    vs[-1]["facets"]["model"] = cfg.get("tag")
        for v in vs:
            sig = (v["clause"], tuple(sorted(v["facets"].items())))
            if sig in sigs:
                continue
            sigs.add(sig)
            v = dict(v)
            v["config"] = cfg
            v["choices"] = [c[2] for c in r.choices]
            out["violations"].append(v)
        # children: deviate at every choice point beyond the prefix
        if ndev < bound:
            for i in range(len(prefix), len(r.choices)):
                name, n, c = r.choices[i]
                for alt in range(1, n):
                    stack.append((tuple(x[2] for x in r.choices[:i]) + (alt,), ndev + 1))
    out["wall"] = round(time.time() - t0, 2)
    out["distinct_logs"] = len(out["digests"])
    del out["digests"]
    return out


def replay_file(v, path):
    from . import fmonitors
    mons = fmonitors.FMONITORS.get(v["property"], [])
    r = run(v["config"], v["choices"], mons, keep=True)
    if r.led is not None:
        for e in r.led.events[-60:]:
            print("t=%-6s %-10s edge=%-6s node=%-6s item=%s %s" % (round(e[0], 6), e[1], e[2], e[3], e[4], e[5] if e[5] is not None else ""))
    if r.crash:
        print("CRASH %s: %s: %s" % (r.crash[0], type(r.crash[1]).__name__, r.crash[1]))
    mine = [x for x in r.viol if x["property"] == v["property"]]
    if r.crash and v.get("clause") in ("no-crash", "no-livelock"):
        mine.append({"clause": v["clause"], "detail": str(r.crash[1])})
    for x in mine:
        print("VIOLATION property=%s replay=%s" % (v["property"], path))
        print("  #", x["clause"], "|", x["detail"])
    return 1 if mine else 0
