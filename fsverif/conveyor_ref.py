"""Kinematic reference model of a conveyor (DESIGN §5 C12/C13), driven only by the explorer's ledger:
entry times (puts), removals (gets) and elapsed time.  Progress s_i is measured in time units of belt
travel: an item is at the exit when s_i == T; tau is one item length of travel."""
from .monitors import Monitor, V, EPS, key
from .seams import events_now
from .world import GRANTED, PENDING

TOL = 1e-7


def geometry(w):
    sp = w.spec
    if sp.kind == "cconv":
        ilen, speed = sp.get("ilen", 1), sp.get("speed", 1)
        clen = sp.get("clen", sp.cap * ilen)
        return clen / speed, ilen / speed
    d = sp.get("delay", 1)
    return sp.cap * d, d


class ConvRef(Monitor):
    """shared reference state; subclasses decide which disagreements belong to which property"""

    def __init__(self, w):
        self.T, self.tau = geometry(w)
        self.acc = bool(w.spec.get("acc", 1))
        self.s = {}              # item n -> progress
        self.order = []          # item n in entry order (inside only)
        self.t = w.now
        self.ever_stalled = False
        self.stalled_prev_end = False   # stalled at the end of the previous instant
        self.stalled_now_end = False
        self.last_end_t = None
        self.same_instant_entries = False
        self.ever_spacing_bad = False   # some item entered less than one item length behind the previous one (KF6): overlapping items
        self.offgrid = False
        self.entered_stalled = set()   # items that entered while the head was waiting at the exit
        self.any_entered_stalled = False
        self.between_slots = False     # a stall began while a follower was between two slot positions
        self.not_touching = set()      # followers that were NOT touching the item ahead when a stall began

    # ---- reference dynamics
    def head_waiting(self):
        return bool(self.order) and self.s[self.order[0]] >= self.T - TOL

    def advance(self, dt):
        if dt <= 0 or not self.order:
            return
        if self.acc:
            prev = None
            for n in self.order:
                lim = self.T if prev is None else self.s[prev] - self.tau
                self.s[n] = min(self.s[n] + dt, max(lim, self.s[n]))
                prev = n
        else:
            h = self.order[0]
            run = min(dt, max(0.0, self.T - self.s[h]))
            for n in self.order:
                self.s[n] += run

    def can_admit(self, w):
        free = w.spec.cap - w.held() - len(w.granted("p"))
        if free <= 0:
            return False
        if w.granted("p"):
            return False    # the item of that reservation still has to enter and move one item length first
        if self.order:
            last = self.order[-1]
            if self.s[last] < self.tau - TOL:
                return False
            if not self.acc and self.head_waiting():
                return False
        return True

    # ---- bookkeeping on every op
    def track(self, w, obs):
        op = obs["op"]
        t1 = w.now
        self.advance(t1 - self.t)
        self.t = t1
        self.entered = None
        self.spacing_bad = None
        if op[0] == "put" and obs.get("item") is not None:
            x = obs["item"]
            if self.order:
                last = self.order[-1]
                if self.s[last] < self.tau - TOL:
                    tk = w.toks[op[1]]
                    prev = next(y for y in w.items if y.n == last)
                    self.spacing_bad = (last, self.s[last], tk.grant_seq is not None and tk.grant_seq < prev.x.get("put_seq", -1))
                    self.ever_spacing_bad = True
                    if self.s[last] < TOL:
                        self.same_instant_entries = True
            if self.head_waiting():
                self.entered_stalled.add(x.n)
                self.any_entered_stalled = True
            self.s[x.n] = 0.0
            self.order.append(x.n)
            self.entered = x
            g = w.grid
            if abs(t1 / self.tau - round(t1 / self.tau)) > 1e-9:
                self.offgrid = True
        if op[0] == "get" and obs.get("item") is not None:
            n = obs["item"].n
            if n in self.s:
                del self.s[n]
                self.order.remove(n)
        hw = self.head_waiting()
        if hw and not getattr(self, "_hw_prev", False):
            prev = self.order[0]
            for n in self.order[1:]:
                fr = self.s[n] / self.tau
                if abs(fr - round(fr)) > 1e-6:
                    self.between_slots = True
                if abs((self.s[prev] - self.s[n]) - self.tau) > 1e-6 or prev in self.not_touching:
                    # not part of the closed-up chain behind the head: a gap right ahead, or behind an item that still has one
                    self.not_touching.add(n)
                prev = n
        self._hw_prev = hw
        if not events_now(w.env):
            if self.last_end_t is None or t1 > self.last_end_t + EPS:
                self.stalled_prev_end = self.stalled_now_end
                self.last_end_t = t1
            self.stalled_now_end = self.head_waiting()
            if self.stalled_now_end:
                self.ever_stalled = True

    def ref_state(self, w):
        return (tuple((w.items[n].obj, round(self.s[n], 6), n in self.entered_stalled) for n in self.order), self.ever_stalled, self.between_slots,
                self.any_entered_stalled, tuple(w.items[n].obj for n in self.order if n in self.not_touching), self.stalled_prev_end,
                self.stalled_now_end, self.same_instant_entries, self.offgrid, self.ever_spacing_bad)

    def facets(self, w, **kw):
        f = {"acc": self.acc, "conv": w.spec.kind}
        if abs(w.spec.cap * self.tau - self.T) > 1e-9:
            # the library's capacity (int(ceil(length)/item_length)) times the item length is not the belt length:
            # its travel delay item_length*capacity/speed differs from length/speed (KF13)
            f["length_multiple_of_item"] = False
        f.update(kw)
        return f


class C12(ConvRef):
    prop = "C12"

    def after(self, w, obs):
        out = []
        self.track(w, obs)
        op = obs["op"]
        if w.held() > w.spec.cap:
            out.append(V("C12", "at-most-capacity", w, "%d items on a belt of capacity %d" % (w.held(), w.spec.cap), **self.facets(w)))
        if self.spacing_bad is not None:
            last, s, early_grant = self.spacing_bad
            out.append(V("C12", "entry-spacing", w,
                         "i%d entered at %s while the previous item i%d had moved only %.6g of the required %.6g of belt travel (%s)"
                         % (self.entered.n, w.now, last, s, self.tau,
                            "its space reservation was granted before i%d entered" % last if early_grant else "reservation granted after that entry"),
                         **self.facets(w, reservation_predates_previous_entry=early_grant, after_stall=self.ever_stalled,
                                       entry_during_stall_before=self.any_entered_stalled)))
        if op[0] == "get" and obs.get("item") is not None:
            x = obs["item"]
            older = [y for y in w.inside() if y.n < x.n]
            # only with an eager consumer: otherwise the caller may itself use a later reservation first (C12Order judges that)
            if older and w.spec.get("eager_get") and len([t for t in w.toks if t.side == "g" and t.status == GRANTED]) == 0:
                out.append(V("C12", "leave-in-entry-order", w, "%r left the conveyor while %r, which entered earlier, is still on it"
                             % (x.obj, older[0].obj), **self.facets(w)))
            if w.now < x.t_put + self.T - TOL:
                out.append(V("C12", "minimum-travel-time", w, "%r entered at %s and was handed out at %s, travel time %s"
                             % (x.obj, x.t_put, w.now, self.T), **self.facets(w, via="get")))
        pr = w.pub_ready() or []
        ids = {id(o) for o in pr}
        for x in w.inside():
            if id(x.obj) in ids and w.now < x.t_put + self.T - TOL:
                out.append(V("C12", "minimum-travel-time", w, "%r entered at %s and is offered at %s, travel time %s"
                             % (x.obj, x.t_put, w.now, self.T), **self.facets(w, via="ready")))
                break
        # exact travel time while the destination takes everything at once (no stall so far)
        if not events_now(w.env) and not self.ever_stalled and not self.same_instant_entries:
            for x in w.inside():
                if w.now >= x.t_put + self.T - TOL and id(x.obj) not in ids:
                    out.append(V("C12", "exact-travel-time", w,
                                 "%r entered at %s on a belt that never stalled; travel time %s; still not offered at the end of instant %s"
                                 % (x.obj, x.t_put, self.T, w.now), **self.facets(w)))
                    break
        return out

    def state(self, w):
        return self.ref_state(w)


class C13(ConvRef):
    prop = "C13"

    def after(self, w, obs):
        out = []
        self.track(w, obs)
        if self.same_instant_entries or self.ever_spacing_bad:
            return out   # two items in one slot / overlapping items: C12's finding (KF6); the kinematic reference is undefined from here on
        # no admission during a non-accumulating stall
        if not self.acc and self.stalled_prev_end and self.stalled_now_end:
            for g in obs["granted"]:
                if g.side == "p":
                    out.append(V("C13", "no-admission-during-stall", w,
                                 "space request %d granted at %s while the head item waits unreserved at the exit of a non-accumulating belt"
                                 % (g.idx, w.now), **self.facets(w, others_on_belt=len(self.order) > 1)))
        if not events_now(w.env) and self.ever_stalled:
            pr = w.pub_ready() or []
            ids = {id(o) for o in pr}
            for x in w.inside():
                ref = self.s[x.n] >= self.T - TOL
                real = id(x.obj) in ids
                if ref != real:
                    out.append(V("C13", "position-under-stall", w,
                                 "at the end of instant %s the reference has %r at progress %.6g of %s (%s), the conveyor %s it; progress of all items %s"
                                 % (w.now, x.obj, self.s[x.n], self.T, "at the exit" if ref else "still travelling",
                                    "offers" if real else "does not offer", [(n, round(self.s[n], 6)) for n in self.order]),
                                 **self.facets(w, early=real and not ref, entered_during_stall=x.n in self.entered_stalled,
                                               between_slots=self.between_slots,
                                               always_touching=not (self.not_touching & set(self.order)) and not self.entered_stalled)))
                    break
        return out

    def state(self, w):
        return self.ref_state(w)


class C04Conv(ConvRef):
    """lost wake-up on the admission side of a conveyor: reference admission rule"""
    prop = "C04"

    def after(self, w, obs):
        out = []
        self.track(w, obs)
        if self.same_instant_entries or self.ever_spacing_bad:
            return out
        if not events_now(w.env) and w.waiting("p") and self.can_admit(w):
            out.append(V("C04", "space-free-but-request-waiting", w,
                         "at the end of instant %s a space request waits although the belt has free capacity, the last item has moved %.6g >= %.6g and the belt is not stalled"
                         % (w.now, self.s[self.order[-1]] if self.order else -1, self.tau), side="p",
                         **self.facets(w, last_entered_during_stall=bool(self.order) and self.order[-1] in self.entered_stalled,
                                       last_not_touching_at_stall=bool(self.order) and self.order[-1] in self.not_touching,
                                       after_stall=self.ever_stalled)))
        return out

    def state(self, w):
        return self.ref_state(w)


from .monitors import C06 as _C06


class C12Order(_C06):
    """entry order on conveyors, also with several outstanding / cancelled retrieval reservations: the possible-worlds
    FIFO reference of C06 (availability order == entry order on a belt), reported under C12"""
    prop = "C12"

    def after(self, w, obs):
        out = _C06.after(self, w, obs)
        for v in out:
            v["property"] = "C12"
            v["clause"] = "leave-in-entry-order"
            v["facets"] = {"conv": w.spec.kind, "acc": bool(w.spec.get("acc", 1)), "after_cancel_of_granted": self.cancelled_granted}
        return out
