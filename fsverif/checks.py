"""Registry: which jobs decide which property, at which tier; evidence and self-tests."""
import json, os, time
from .world import Spec, replay
from . import monitors as M
from . import engine_s
from .probes import PROBES

ROOT = os.path.dirname(os.path.dirname(os.path.abspath(__file__)))


def S(kind, cap, **kw):
    return Spec(kind, cap, **kw)


# --------------------------------------------------------------------------- subject catalogue (Engine S)
def store_subjects(tier, purpose="general"):
    q = tier == "quick"
    L = 2 if q else 3
    out = []
    caps = (1, 2) if q else (1, 2, 3)
    pr = [0, 1] if q else [-1, 0, 1]
    for cap in caps:
        out.append(S("rs", cap, live=L))
        out.append(S("rps", cap, live=L, prios=pr))
    out.append(S("rps", 1, live=3, prios=pr))          # three waiting requests: a middle position in the queue exists
    out.append(S("rpfs", 1, live=3, prios=[0, 1], drain=1, age_cap=0.5))
    # a head whose filter matches nothing can hide servable requests behind it
    out.append(S("rpfs", 2, live=3, prios=[0], filters=[None, "blue"], colors=["red", "blue"], drain=1, age_cap=0.5, notime=1))
    out.append(S("rpfs", 1, live=3, prios=[0], filters=[None, "blue", "red"], colors=["red", "blue"], drain=1, age_cap=0.5, notime=1))
    out.append(S("rpfs", 2, live=2, prios=[0], filters=[None, "blue"], colors=["red", "blue"], td=1, drain=1, age_cap=2, grid=1, puts_per_instant=2))
    # filter store: priorities, user filters, trigger delay; with and without explicit kernel stepping
    out.append(S("rpfs", 2, live=2, prios=[0, 1], drain=1, age_cap=0.5))
    out.append(S("rpfs", 2, live=2, prios=[0], filters=[None, "blue"], colors=["red", "blue"], drain=1, age_cap=0.5))
    out.append(S("rpfs", 2, live=2, prios=[0], td=1, drain=1, age_cap=2))
    out.append(S("rpfs", 1, live=2, prios=[0], td=1, age_cap=2))
    if not q:
        out.append(S("rpfs", 3, live=3, prios=[0, 1], drain=1, age_cap=0.5))
        out.append(S("rpfs", 3, live=1, live_p=1, live_g=3, prios=[0], filters=[None, "blue"], colors=["red", "blue"], drain=1, age_cap=0.5, notime=1))
        out.append(S("rpfs", 2, live=3, prios=[0], filters=[None, "blue", "red"], colors=["red", "blue"], drain=1, age_cap=0.5))
        out.append(S("rpfs", 2, live=2, prios=[0, 1], td=1, age_cap=2))
        out.append(S("rpfs", 2, live=2, prios=[0], td=2, drain=1, age_cap=4, filters=[None, "blue"], colors=["red", "blue"], puts_per_instant=2))
    # asymmetric subjects: three or four of a kind on one side (outstanding retrievals, waiting space requests, items inside),
    # the other side kept to one or two so that the state space stays small
    out.append(S("rs", 3, live=1, live_p=1, live_g=3))
    out.append(S("rs", 4, live=1, live_p=2, live_g=4))
    out.append(S("rps", 3, live=1, live_p=1, live_g=3, prios=[0, 1]))
    out.append(S("rpfs", 3, live=1, live_p=1, live_g=2, prios=[0], filters=[None, "blue"], colors=["red", "blue"], drain=1, age_cap=0.5, notime=1))
    out.append(S("rpfs", 4, live=1, live_p=1, live_g=2, prios=[0], filters=[None, "blue"], colors=["red", "blue"], drain=1, age_cap=0.5, notime=1))
    for mode in ("FIFO", "LIFO"):
        out.append(S("buffer", 3, live=1, live_p=2, live_g=3, mode=mode, delays=[0], drain=1, age_cap=0.5, notime=1))
        out.append(S("buffer", 3, live=1, live_p=2, live_g=1, mode=mode, delays=[0, 1], drain=1, age_cap=2))
    out.append(S("buffer", 4, live=1, live_p=1, live_g=4, mode="FIFO", delays=[0], drain=1, age_cap=0.5, notime=1))
    out.append(S("buffer", 4, live=1, live_p=2, live_g=1, mode="FIFO", delays=[0, 1], drain=1, age_cap=2))
    out.append(S("buffer", 3, live=1, live_p=1, live_g=3, mode="FIFO", delays=[0, 1], drain=1, age_cap=2))
    out.append(S("buffer", 3, live=1, live_p=2, live_g=2, mode="LIFO", delays=[0, 1], drain=1, age_cap=2))
    for mode in ("FIFO", "LIFO"):
        out.append(S("buffer", 2, live=2, mode=mode, delays=[0, 1], drain=1, age_cap=2))
        out.append(S("buffer", 1, live=2, mode=mode, delays=[0, 1], age_cap=2))
        if not q:
            out.append(S("buffer", 3, live=3, mode=mode, delays=[0, 1], drain=1, age_cap=2))
            out.append(S("buffer", 2, live=2, mode=mode, delays=[0, 1, 2], age_cap=4))
    return out


def fleet_subjects(tier, c14=False):
    q = tier == "quick"
    out = [S("fleet", 2, live=2, delay=2, transit=1, drain=1, age_cap=5, grid=1)]
    if c14:
        out.append(S("fleet", 3, live=1, delay=2, transit=1, drain=1, age_cap=5, grid=1))
        out.append(S("fleet", 3, live=1, delay=1, transit=1, drain=1, age_cap=4, grid=1))     # overlapping trips, 3 items
        out.append(S("fleet", 3, live=1, delay=1, transit=1.5, drain=1, age_cap=4, grid=0.5))   # three trips under way at once
        out.append(S("fleet", 2, live=2, delay=2, transit=1, drain=1, age_cap=5, grid=1, notime=1))   # two waiting retrievals
        out.append(S("fleet", 2, live=1, delay=1, transit=1, drain=1, age_cap=4, grid=0.5))
        out.append(S("fleet", 2, live=1, delay=2, transit=0, drain=1, age_cap=3, grid=1))
        out.append(S("fleet", 2, live=1, delay=3, transit=0.5, drain=1, age_cap=5, grid=0.5))
        out.append(S("fleet", 2, live=1, delay=2, transit=1, age_cap=5, grid=1))
    else:
        out.append(S("fleet", 1, live=2, delay=2, transit=1, drain=1, age_cap=5, grid=1, prios=[0, 1]))
        # three granted retrievals on one fleet (asymmetric, event-to-event time steps only)
        out.append(S("fleet", 3, live=1, live_p=1, live_g=3, delay=1, transit=0.5, drain=1, age_cap=2, grid=0.5, notime=1))
    if not q:
        out.append(S("fleet", 2, live=2, delay=2, transit=1, drain=1, age_cap=5, grid=1, prios=[0, 1]))
        out.append(S("fleet", 2, live=2, delay=1, transit=1, drain=1, age_cap=5, grid=0.5))
        out.append(S("fleet", 3, live=3, delay=2, transit=1, drain=1, age_cap=5, grid=1))
        out.append(S("fleet", 2, live=2, delay=2, transit=0, drain=1, age_cap=4, grid=1))
        out.append(S("fleet", 2, live=2, delay=3, transit=0.5, drain=1, age_cap=6, grid=0.5))
        out.append(S("fleet", 2, live=2, delay=2, transit=1, age_cap=5, grid=1))
    return out


def conveyor_store_subjects(tier, eager=False):
    """conveyors as stores (capacity, conservation, order, wake-ups): small, state-capped"""
    q = tier == "quick"
    kw = {"eager_get": 1} if eager else {}
    out = [S("sconv", 2, live=2, drain=1, age_cap=3, grid=1, acc=1, delay=1, **kw),
           S("cconv", 2, live=2, drain=1, age_cap=3, grid=1, acc=1, **kw),
           S("cconv", 2, live=2, drain=1, age_cap=3, grid=1, acc=0, **kw),
           S("sconv", 3, live=2, drain=1, age_cap=3, grid=1, acc=0, delay=1, **kw),
           S("cconv", 3, live=2, drain=1, age_cap=3, grid=1, acc=1, **kw)]
    if not q:
        out += [S("sconv", 3, live=2, drain=1, age_cap=4, grid=1, acc=0, delay=1, prios=[0, 1], **kw),
                S("cconv", 3, live=2, drain=1, age_cap=4, grid=0.5, acc=1, **kw)]
    return out


def conveyor_subjects(tier):
    q = tier == "quick"
    out = []
    if q:
        out.append(S("cconv", 3, live=1, drain=1, eager_get=1, age_cap=4, grid=0.5, acc=1, ilen=1, clen=2.5, notime=1))   # non-multiple length (KF13)
    # speed != 1: time and distance units differ (T = 1, one item length of travel = 0.5)
    out.append(S("cconv", 2, live=1, drain=1, eager_get=1, age_cap=2, grid=0.25, acc=1, ilen=1, clen=2, speed=2))
    out.append(S("cconv", 2, live=1, drain=1, eager_get=1, age_cap=2, grid=0.25, acc=0, ilen=1, clen=2, speed=2))
    # ... four slots at speed 2, accumulating: items admitted during a stall have empty slots ahead of them
    out.append(S("cconv", 4, live=1, drain=1, eager_get=1, age_cap=3, grid=0.5, acc=1, ilen=1, clen=4, speed=2, notime=1,
                 cap_states=30000 if q else 200000))
    # three slots on a half-slot grid: a follower can be caught by a stall in the middle of its phase 2
    out.append(S("cconv", 3, live=1, drain=1, eager_get=1, age_cap=5, grid=0.5, acc=0))
    # four slots, accumulating, on the slot grid: several touching followers, zero-length stalls, repeated stalls
    out.append(S("cconv", 4, live=1, drain=1, eager_get=1, age_cap=5, grid=1, acc=1, notime=1, cap_states=30000 if q else 200000))
    for kind in ("cconv", "sconv"):
        for acc in (1, 0):
            kw = {"delay": 1} if kind == "sconv" else {}
            out.append(S(kind, 2, live=1, drain=1, eager_get=1, age_cap=4, grid=0.5, acc=acc, **kw))
            out.append(S(kind, 2, live=2, drain=1, eager_get=1, age_cap=4, grid=1, acc=acc, **kw))
            out.append(S(kind, 3, live=1, drain=1, eager_get=1, age_cap=5, grid=1, acc=acc, **kw))
            if not q:
                out.append(S(kind, 3, live=2, drain=1, eager_get=1, age_cap=6, grid=0.5, acc=acc, **kw))
                out.append(S(kind, 2, live=2, drain=1, age_cap=4, grid=1, acc=acc, order_only=1, **kw))   # delayed use / cancellation: order only
    if not q:
        # lengths that are not a multiple of the item length (capacity as the library computes it: int(ceil(length)/item_length))
        out.append(S("cconv", 4, live=1, drain=1, eager_get=1, age_cap=4, grid=0.35, acc=1, ilen=0.7, speed=1, clen=2.1))
        out.append(S("cconv", 3, live=1, drain=1, eager_get=1, age_cap=5, grid=0.5, acc=1, ilen=1, clen=2.5))
    return out


ENGINE_S_PROPS = {"C01", "C02", "C04", "C05", "C06"}


def jobs_for(prop, tier):
    jobs = []
    q = tier == "quick"
    caps = {"max_states": 60000 if q else 500000, "max_seconds": 900 if q else 1200}
    if prop in ENGINE_S_PROPS:
        for sp in store_subjects(tier) + fleet_subjects(tier):
            c1 = dict(caps)
            if prop == "C06" and q:
                # the possible-worlds monitor of C06 multiplies the states of subjects with many outstanding retrievals
                if (sp.cap == 4 and sp.get("live_g") == 4) or (sp.kind == "fleet" and sp.get("live_g") == 3):
                    continue
                if sp.kind == "buffer" and sp.cap == 3 and sp.get("live_g", 0) >= 2 and sp.get("delays") == [0, 1]:
                    c1["max_states"] = 12000
            jobs.append({"engine": "S", "prop": prop, "label": sp.label() + "#" + _h(sp), "spec": sp.to_json(), "caps": c1})
        ccaps = {"max_states": 9000 if q else 150000, "max_seconds": 900 if q else 1200}
        csubs = conveyor_store_subjects(tier, eager=(prop == "C04"))
        if prop == "C01":
            # belt whose length is not a multiple of the item length: the public capacity is what must bound items + reservations
            csubs.append(S("cconv", 2, live=2, drain=1, age_cap=5, grid=1, acc=1, clen=5, ilen=2))
            csubs.append(S("cconv", 3, live=2, drain=1, age_cap=5, grid=1, acc=0, clen=10, ilen=3))
        for sp in csubs:
            jobs.append({"engine": "S", "prop": prop, "label": sp.label() + "#" + _h(sp), "spec": sp.to_json(), "caps": ccaps})
        if prop in ("C01", "C06"):
            jobs += f_jobs(prop, tier)   # "in whole factories" clause
    elif prop in F_FAMILIES:
        jobs = f_jobs(prop, tier)
        if prop == "C12":    # whole factories: only configurations with a conveyor
            jobs = [j for j in jobs if any(e["t"] in ("cconv", "sconv") for e in j["config"]["edges"])]
        if prop == "C14":    # ... with a fleet
            jobs = [j for j in jobs if any(e["t"] == "fleet" for e in j["config"]["edges"])]
    if prop == "C05":
        # queue-heavy subjects: four waiting requests on one side, three priority values (a middle position among equals exists)
        for sp in (S("rps", 1, live=1, live_p=4, live_g=1, prios=[0, 1, 2]), S("rps", 1, live=1, live_p=1, live_g=4, prios=[0, 1, 2]),
                   S("rpfs", 1, live=1, live_p=4, live_g=1, prios=[0, 1, 2], drain=1, age_cap=0.5, notime=1),
                   S("rpfs", 1, live=1, live_p=1, live_g=4, prios=[0, 1, 2], drain=1, age_cap=0.5, notime=1),
                   # priorities on the stores behind a fleet and a slotted conveyor (the edge API never passes one, the store API does)
                   S("fleet", 1, live=1, live_p=1, live_g=3, prios=[0, 1, 2], delay=1, transit=0.5, drain=1, age_cap=2, grid=0.5, notime=1),
                   S("fleet", 1, live=1, live_p=3, live_g=1, prios=[0, 1, 2], delay=1, transit=0.5, drain=1, age_cap=2, grid=0.5, notime=1),
                   S("sconv", 2, live=1, live_p=1, live_g=3, prios=[0, 1, 2], delay=1, acc=1, drain=1, age_cap=3, grid=1, notime=1),
                   S("sconv", 2, live=1, live_p=3, live_g=1, prios=[0, 1, 2], delay=1, acc=1, drain=1, age_cap=3, grid=1, notime=1)):
            jobs.append({"engine": "S", "prop": prop, "label": sp.label() + "#" + _h(sp), "spec": sp.to_json(), "caps": caps})
        jobs.append({"engine": "PRS", "prop": prop, "label": "prs(cap=1,live=4)", "cap": 1, "live": 4, "prios": [0, 1, 2]})
        for cap in ((1, 2) if q else (1, 2, 3)):
            jobs.append({"engine": "PRS", "prop": prop, "label": "prs(cap=%d)" % cap, "cap": cap, "live": 2 if q else 3,
                         "prios": [0, 1] if q else [-1, 0, 1]})
    if prop == "C20":
        # store / edge level: every well-formed call and kernel step, also between the kernel events of one instant
        scaps = {"max_states": 8000 if q else 100000, "max_seconds": 900 if q else 1200}
        subs = [S("cconv", 2, live=2, age_cap=3, grid=1, acc=1), S("cconv", 2, live=2, age_cap=3, grid=1, acc=0),
                S("sconv", 2, live=2, age_cap=3, grid=1, acc=1, delay=1), S("buffer", 2, live=2, mode="LIFO", delays=[0, 1], age_cap=2),
                S("fleet", 2, live=2, delay=2, transit=0, age_cap=3, grid=1), S("fleet", 2, live=2, delay=1, transit=1, age_cap=3, grid=1),
                S("rpfs", 2, live=2, prios=[0], td=1, age_cap=2)]
        for sp in subs:
            jobs.append({"engine": "S", "prop": prop, "label": sp.label() + "#" + _h(sp), "spec": sp.to_json(), "caps": scaps})
    elif prop == "C19":
        jobs = [{"engine": "C19", "prop": prop, "label": "C19-differential", "tier": tier}]
    elif prop == "C07":
        if q:
            subs = [S("rs", 2, live=2), S("rps", 1, live=2, prios=[0]), S("rps", 2, live=2, prios=[0]),
                    S("rpfs", 1, live=2, prios=[0], drain=1, age_cap=0.5),
                    S("rpfs", 2, live=1, prios=[0], td=1, drain=1, age_cap=2),
                    S("buffer", 1, live=2, mode="FIFO", delays=[0], drain=1, age_cap=0.5),
                    S("buffer", 2, live=1, mode="FIFO", delays=[0, 1], drain=1, age_cap=1),
                    S("buffer", 2, live=2, mode="FIFO", delays=[0], drain=1, age_cap=0.5, notime=1),
                    S("rpfs", 2, live=2, prios=[0], drain=1, age_cap=0.5, notime=1),
                    S("fleet", 2, live=2, delay=2, transit=1, drain=1, age_cap=3, grid=1, notime=1, cap_states=9000),
                    S("sconv", 2, live=2, drain=1, age_cap=2, grid=1, acc=1, delay=1, notime=1, cap_states=9000),
                    S("cconv", 2, live=2, drain=1, age_cap=2, grid=1, acc=1, notime=1, cap_states=9000),
                    S("buffer", 1, live=2, mode="LIFO", delays=[0], drain=1, age_cap=0.5),
                    S("buffer", 1, live=1, mode="FIFO", delays=[1], age_cap=2),
                    S("fleet", 1, live=1, delay=2, transit=1, drain=1, age_cap=3, grid=1),
                    S("fleet", 2, live=1, delay=2, transit=1, drain=1, age_cap=3, grid=1),
                    S("sconv", 2, live=1, drain=1, age_cap=2, grid=1, acc=1, delay=1, notime=1),
                    S("cconv", 2, live=1, drain=1, age_cap=2, grid=1, acc=1, notime=1)]
        else:
            subs = store_subjects("quick") + fleet_subjects("quick")
        for sp in subs:
            sp.kw["actors"] = 2
            c2 = dict(caps)
            if sp.get("cap_states"):
                c2["max_states"] = sp.get("cap_states")   # deterministic state cap for the large two-token subjects
            jobs.append({"engine": "S", "prop": prop, "label": sp.label() + "#" + _h(sp), "spec": sp.to_json(), "caps": c2})
    elif prop == "C11":
        for sp in store_subjects(tier) + fleet_subjects(tier):
            if sp.kind in ("buffer", "fleet"):
                jobs.append({"engine": "S", "prop": prop, "label": sp.label() + "#" + _h(sp), "spec": sp.to_json(), "caps": caps})
    elif prop in ("C12", "C13"):
        ccaps = {"max_states": 16000 if q else 250000, "max_seconds": 400 if q else 1200}   # state cap: deterministic coverage
        for sp in conveyor_subjects(tier):
            if sp.get("order_only") and prop == "C13":
                continue   # the kinematic reference is only defined for an eager consumer (DESIGN §5 C13, §12.4)
            cc = dict(ccaps)
            if sp.get("cap_states"):
                cc["max_states"] = sp.get("cap_states")
            jobs.append({"engine": "S", "prop": prop, "label": sp.label() + "#" + _h(sp), "spec": sp.to_json(), "caps": cc})
        if prop == "C12":
            for sp in conveyor_store_subjects(tier):
                sp.kw["order_only"] = 1
                jobs.append({"engine": "S", "prop": prop, "label": sp.label() + "#" + _h(sp), "spec": sp.to_json(),
                             "caps": {"max_states": 9000 if q else 150000, "max_seconds": 900 if q else 1200}})
    elif prop == "C14":
        for sp in fleet_subjects(tier, c14=True):
            jobs.append({"engine": "S", "prop": prop, "label": sp.label() + "#" + _h(sp), "spec": sp.to_json(), "caps": caps})
    return jobs


F_FAMILIES = {
    "C01": ["lines", "congestion", "diamonds", "conveyors", "combiners"],
    "C06": ["diamonds", "fans", "splitters", "conveyors"],
    "C03": ["lines", "congestion", "diamonds", "combiners", "splitters", "conveyors", "draining", "nonblocking_fleet", "fleet_dense", "discards", "long_runs"],
    "C08": ["lines", "congestion", "diamonds", "combiners", "splitters", "conveyors", "long_runs", "nonblocking_fleet"],
    "C09": ["lines", "congestion", "fans", "combiners", "splitters", "nonblocking_fleet", "discards", "long_runs"],
    "C10": ["lines", "congestion", "diamonds", "fans", "combiners", "splitters", "conveyors", "draining", "nonblocking_fleet", "fleet_dense", "discards", "long_runs"],
    "C12": ["conveyors", "diamonds", "draining", "long_runs", "splitters"],
    "C14": ["lines", "fleet_dense", "nonblocking_fleet", "long_runs", "diamonds"],
    "C15": ["diamonds", "fans", "combiners", "splitters", "invalid_indices", "discards", "long_runs", "nonblocking_fleet"],
    "C16": ["combiners", "splitters", "long_runs"],
    "C17": ["lines", "congestion", "diamonds", "splitters", "combiners", "conveyors", "discards", "long_runs", "nonblocking_fleet"],
    "C18": ["lines", "congestion", "diamonds", "combiners", "splitters", "conveyors", "nonblocking_fleet", "fleet_dense", "discards", "long_runs"],
    "C20": ["lines", "congestion", "diamonds", "fans", "combiners", "splitters", "conveyors", "invalid", "c20_extra", "fleet_dense", "nonblocking_fleet", "discards", "long_runs"],
}


def f_jobs(prop, tier):
    from . import factory
    q = tier == "quick"
    jobs = []
    for fam in F_FAMILIES[prop]:
        for cfg in factory.FAMILIES[fam](tier):
            jobs.append({"engine": "F", "prop": prop, "label": cfg["tag"], "config": cfg, "bound": cfg.get("bound", 2 if q else 3),
                         "crash_is_violation": prop == "C20",
                         "caps": {"max_runs": 6000 if q else 300000, "max_seconds": 600 if q else 1200}})
    return jobs


def _h(sp):
    import hashlib
    return hashlib.sha1(json.dumps(sp.to_json(), sort_keys=True).encode()).hexdigest()[:6]


def s_monitors(prop, sp):
    """The monitor classes an Engine-S job of this property runs on this subject (also used by --replay)."""
    mons = list(M.MONITORS.get(prop, []))
    if prop == "C20":
        mons = [M.C20S]
    if prop == "C12" and sp.get("order_only"):
        from . import conveyor_ref
        mons = [M.Avail, conveyor_ref.C12Order]
    if prop == "C04" and sp.kind in ("cconv", "sconv"):
        from . import conveyor_ref
        mons.append(conveyor_ref.C04Conv)
    return mons


def run_job(job, seed):
    if job["engine"] == "S":
        sp = Spec.from_json(job["spec"])
        prop = job["prop"]
        mons = s_monitors(prop, sp)
        probe = PROBES.get(prop)
        r = engine_s.explore(sp, prop, mons, probe=probe, seed=seed, **job["caps"])
        d = r.to_json()
        d["engine"] = "S"
        d["label"] = job["label"]
        return d
    if job["engine"] == "PRS":
        from . import prs
        return prs.explore(job["cap"], job["live"], job["prios"])
    if job["engine"] == "C19":
        from . import c19
        return c19.run(job["tier"], seed)
    if job["engine"] == "F":
        from . import engine_f, fmonitors
        prop = job["prop"]
        o = engine_f.explore(job["config"], fmonitors.FMONITORS[prop], job["bound"], prop, seed=seed,
                             crash_is_violation=job.get("crash_is_violation", False), **job["caps"])
        return {"engine": "F", "label": job["label"], "spec": None, "states": o["distinct_logs"], "transitions": o["steps"],
                "traces": o["runs"], "runs": o["runs"], "violations": o["violations"], "fixpoint": o["capped"] is None,
                "capped": o["capped"], "crash_cuts": o["crashes"], "crash_samples": o["crash_samples"],
                "deviation_bound": job["bound"], "distinct_logs": o["distinct_logs"], "wall": o["wall"],
                "samples_short": o["samples"][:1], "samples_long": o["samples"][-1:], "distinct_nontrivial": o["distinct_logs"],
                "counters": {"choice_points_max": o["choice_points_max"], "moved_runs": o["moved_runs"]}}
    raise ValueError(job["engine"])


# --------------------------------------------------------------------------- evidence
def evidence(prop, tier, seed, results, nviol, known_hit, wall):
    states = sum(r.get("states", 0) for r in results)
    trans = sum(r.get("transitions", 0) for r in results)
    traces = sum(r.get("traces", r.get("transitions", 0)) for r in results)
    samples = []
    for r in results[:6]:
        for s in (r.get("samples_short") or [])[:1] + (r.get("samples_long") or [])[-1:]:
            samples.append({"subject": r["label"], "history": s})
    per = []
    for r in results:
        per.append({k: r.get(k) for k in ("label", "engine", "states", "transitions", "max_depth", "fixpoint", "capped",
                                          "instant_end_states", "crash_cuts", "probes", "op_counts", "counters", "wall",
                                          "replayed_ops", "runs", "configs", "deviation_bound", "distinct_logs")
                    if r.get(k) is not None})
    exhaustive = bool(results) and all(r.get("fixpoint") for r in results)
    ops = {}
    for r in results:
        for k, v in (r.get("op_counts") or {}).items():
            ops[k] = ops.get(k, 0) + v
    distinct = sum(r.get("distinct_nontrivial", r.get("states", 0)) for r in results)
    return {
        "property_id": prop, "tier": tier, "seed": seed, "level": "model_checking",
        "coverage": {
            "states": states, "transitions": trans, "traces_validated_against_impl": traces,
            "samples": samples or [{"note": "no state beyond the initial one"}],
            "evaluations": trans, "distinct_nontrivial": distinct,
            "rule": ("Engine S: breadth-first enumeration of every well-formed call / kernel-step / clock-advance "
                     "sequence on the real object within the live-token, capacity and menu bounds of each subject; "
                     "a case is one transition executed on the real object in lock-step with the monitors; "
                     "distinct = canonical states (object graph + monitor state) first reached. "
                     "Engine F: every run of a bounded factory grammar x choice sequences on the real nodes/edges."),
            "exhaustive": exhaustive,
            "fixpoint_reached_in": sum(1 for r in results if r.get("fixpoint")),
            "subjects": len(results),
            "alphabet_fired": ops,
            "per_subject": per,
            "known_findings_hit": known_hit,
            "crash_cut_branches": sum(r.get("crash_cuts", 0) for r in results),
        },
        "assumptions": [
            "SimPy 4.1.2 kernel is correct",
            "small-scope bounds listed per subject (capacity, live tokens per side, menus of priorities / delays / filters)",
            "age clamp of the canonical form: behaviour depends on an item's age only through comparison with the subject's timer constants",
            "harness seams: env._active_proc set by the explorer, print stubbed, delay callables owned by the explorer",
        ],
        "wall_s": round(wall, 2), "violations": nviol,
    }


def selftest(prop, tier, results, ev):
    """vacuity guards: a check that explored nothing meaningful is broken, not passed"""
    out = []
    if not results:
        out.append("no jobs ran")
        return out
    cov = ev["coverage"]
    if cov["states"] < 50:
        out.append("fewer than 50 states explored")
    return out


def replay_file(path):
    v = json.load(open(path))
    if v.get("kind") == "prs":
        from . import prs
        w, viol = prs.replay(v["prs_cap"], v["history"])
        for x in viol:
            print("VIOLATION property=C05 replay=%s" % path)
            print("  #", x["clause"], "|", x["detail"])
        return 1 if viol else 0
    if v.get("engine", "S") == "S":
        sp = Spec.from_json(v["spec"])
        prop = v["property"]
        mons = s_monitors(prop, sp)
        hist = [tuple(o) for o in v["history"]]
        w, viols = replay(sp, hist, mons + ([M.C20S] if M.C20S not in mons else []))
        probe = PROBES.get(prop)
        if probe is not None and w.crashed is None:
            import collections as _c
            viols = list(viols) + list(probe(w, tuple(hist), lambda h, extra, with_mons=False: replay(
                sp, tuple(h) + tuple(extra), mons if with_mons else None), _c.Counter()) or [])
        for o in w.log:
            print("t=%-5s %-22s ret=%r granted=%s" % (o["t"], o["op"], o["ret"], [t.idx for t in o["granted"]]))
        if w.crashed:
            print("CRASH at op %d: %s" % (w.crashed[0], w.crashed[1]))
        mine = [x for x in viols if x["property"] == prop]
        for x in mine:
            print("VIOLATION property=%s replay=%s" % (prop, path))
            print("  #", x["clause"], "|", x["detail"])
        return 1 if mine else 0
    from . import engine_f
    return engine_f.replay_file(v, path)
