#!/venv/bin/python
"""tools/seedcheck.py <seed-id> <dir with patch.diff + demo.py> <property> [checks...] [--needs "text"]
Confirms a seeded breaking change (tests still pass, demo fails with / passes without it), runs the given
checks against it, and files it under /verif/seeded/<seed-id>/ with meta.json.  /repo is not touched: the patch is applied to a
scratch copy under /dev/shm that is removed afterwards."""
import sys, os, subprocess, json, shutil, time
ROOT = "/verif"


def sh(cmd, **kw):
    return subprocess.run(cmd, shell=True, capture_output=True, text=True, **kw)


def main():
    a = sys.argv[1:]
    needs = ""
    if "--needs" in a:
        i = a.index("--needs")
        needs = a[i + 1]
        a = a[:i] + a[i + 2:]
    sid, src, prop = a[0], a[1], a[2]
    checks = a[3:] or [prop]
    dst = os.path.join(ROOT, "seeded", sid)
    os.makedirs(dst, exist_ok=True)
    for f in ("patch.diff", "demo.py"):
        if os.path.abspath(src) != os.path.abspath(dst):
            shutil.copy(os.path.join(src, f), os.path.join(dst, f))
    meta = {"seed": sid, "property": prop, "needs": needs, "ran": []}
    # the change is applied to a scratch copy of /repo's working tree (never to /repo itself, so that checks of the unchanged tree
    # can run at the same time); tests and demo see it through PYTHONPATH, the checks through FSVERIF_SRC
    root = "/dev/shm/fsverif-seed-%s-%d" % (sid, os.getpid())
    shutil.rmtree(root, ignore_errors=True)
    os.makedirs(root)
    sh("cp -r /repo/src /repo/tests %s/ ; cp /repo/pyproject.toml /repo/setup.py /repo/setup.cfg /repo/pytest.ini /repo/conftest.py %s/ 2>/dev/null" % (root, root))
    env0 = dict(os.environ, PYTHONPATH="/repo/src", PYTHONHASHSEED="0")
    r = sh("/venv/bin/python demo.py", cwd=dst, env=env0, timeout=600)
    meta["demo_without_change_rc"] = r.returncode
    ap = sh("patch -p1 -d %s < %s" % (root, os.path.join(dst, "patch.diff")))
    if ap.returncode != 0:
        print("patch does not apply:", ap.stdout, ap.stderr)
        shutil.rmtree(root, ignore_errors=True)
        return 2
    env = dict(os.environ, PYTHONPATH=os.path.join(root, "src"), PYTHONHASHSEED="0", PYTHONDONTWRITEBYTECODE="1")
    try:
        t = sh("cd %s && timeout 1200 /venv/bin/python -m pytest -q -p no:cacheprovider --timeout=900 --continue-on-collection-errors tests 2>&1 | tail -1" % root, env=env)
        meta["tests_with_change"] = t.stdout.strip()
        r = sh("/venv/bin/python demo.py", cwd=dst, env=env, timeout=600)
        meta["demo_with_change_rc"] = r.returncode
        meta["demo_with_change_tail"] = (r.stdout + r.stderr)[-400:]
        det = {}
        for c in checks:
            e2 = dict(os.environ, VERIF_EVIDENCE_DIR="/var/tmp/fsverif-mut-evidence", FSVERIF_SRC=os.path.join(root, "src"),
                      PYTHONDONTWRITEBYTECODE="1")
            rr = sh("bin/check %s" % c, cwd=ROOT, env=e2, timeout=3000)
            lines = [l for l in rr.stdout.split("\n") if l.startswith("VIOLATION") or l.startswith("  #")]
            det[c] = {"rc": rr.returncode, "violations": sum(1 for l in lines if l.startswith("VIOLATION")),
                      "first": [l[:300] for l in lines[:2]]}
            for l in lines:
                if l.startswith("VIOLATION"):
                    try:
                        os.remove(l.split("replay=")[1].strip())
                    except OSError:
                        pass
            meta["ran"].append("FSVERIF_SRC=<scratch copy with the patch> bin/check %s -> rc %d" % (c, rr.returncode))
        meta["checks"] = det
    finally:
        shutil.rmtree(root, ignore_errors=True)
    meta["confirmed"] = (meta["demo_without_change_rc"] == 0 and meta["demo_with_change_rc"] != 0
                         and meta["tests_with_change"].startswith("70 passed"))
    meta["detected_by"] = [c for c, d in meta["checks"].items() if d["rc"] == 1 and d["violations"] > 0]
    json.dump(meta, open(os.path.join(dst, "meta.json"), "w"), indent=1)
    print(json.dumps({k: meta[k] for k in ("seed", "confirmed", "tests_with_change", "demo_without_change_rc", "demo_with_change_rc", "detected_by")}))
    for c, d in meta["checks"].items():
        print("  ", c, d["rc"], d["violations"], d["first"][-1:] if d["first"] else "")
    return 0


if __name__ == "__main__":
    sys.exit(main())
