#!/venv/bin/python
"""tools/mutsweep.py <out.json> <n-per-file> <file[,file..]> <check[,check..]> [--seed N] [--par 4]

Systematic first-order mutants of library source files, used to look for blind spots of the checks (DESIGN §16).
Each mutant lives in a scratch copy of /repo/src under /dev/shm (never in /repo): the unedited test-suite is run
against it first (mutants the suite kills are of no interest), then the given checks, cheapest first, until one
reports a violation.  Survivors are listed for manual triage: equivalent / outside every property / a real gap."""
import sys, os, re, json, random, shutil, subprocess, hashlib, multiprocessing

SRC = "/repo/src"
SCRATCH = "/dev/shm/fsverif-mut"

REL = [(r"(?<![<>=!])<(?![<=])", "<="), (r"<=", "<"), (r"(?<![<>=!-])>(?![>=])", ">="), (r">=", ">"), (r"==", "!="), (r"!=", "==")]
OPS = [(r"\+ 1\b", "- 1"), (r"- 1\b", "+ 1"), (r"\+= 1\b", "-= 1"), (r"\band\b", "or"), (r"\bor\b", "and"), (r"\bnot ", ""),
       (r"\bTrue\b", "False"), (r"\bFalse\b", "True"), (r"\[0\]", "[-1]"), (r"\[-1\]", "[0]"), (r"\.append\(", ".insert(0, "),
       (r"\.pop\(0\)", ".pop()"), (r"\bis not None\b", "is None"), (r"\bis None\b", "is not None"), (r"\bmin\(", "max("), (r"\bmax\(", "min(")]


def candidates(path):
    lines = open(path).read().split("\n")
    out = []
    indoc = False
    for i, l in enumerate(lines):
        st = l.strip()
        if st.count('"""') % 2 == 1 or st.count("'''") % 2 == 1:
            indoc = not indoc
            continue
        if indoc or not st or st.startswith("#") or st.startswith("print(") or st.startswith("raise ") or "import " in st \
                or st.startswith("def ") or st.startswith("class ") or st.startswith("assert "):
            continue
        code = l.split("#")[0]
        if "print(" in code or 'f"' in code or "f'" in code:
            continue
        for pat, rep in REL + OPS:
            for m in re.finditer(pat, code):
                new = code[:m.start()] + rep + code[m.end():]
                out.append((i, l, new, "%s -> %s" % (m.group(0), rep)))
        if re.match(r"^\s+(self\.)?[\w\.]+\(.*\)\s*$", code) and not st.startswith(("yield", "return", "super")):
            out.append((i, l, re.match(r"^\s*", l).group(0) + "pass", "delete call"))
        m = re.match(r"^(\s+)(if|elif|while) (.+):\s*$", code)
        if m and m.group(2) != "while":
            out.append((i, l, "%s%s not (%s):" % (m.group(1), m.group(2), m.group(3)), "negate condition"))
    return lines, out


def run_one(job):
    rel, i, old, new, what, checks = job
    mid = hashlib.sha1(("%s:%d:%s" % (rel, i, new)).encode()).hexdigest()[:10]
    root = os.path.join(SCRATCH, mid)
    res = {"id": mid, "file": rel, "line": i + 1, "what": what, "old": old.strip(), "new": new.strip()}
    try:
        shutil.rmtree(root, ignore_errors=True)
        shutil.copytree(SRC, os.path.join(root, "src"), ignore=shutil.ignore_patterns("__pycache__", "*.egg-info"))
        p = os.path.join(root, "src", "factorysimpy", rel)
        lines = open(p).read().split("\n")
        assert lines[i] == old
        lines[i] = new
        open(p, "w").write("\n".join(lines))
        c = subprocess.run(["/venv/bin/python", "-m", "py_compile", p], capture_output=True, text=True)
        if c.returncode != 0:
            res["status"] = "does-not-compile"
            return res
        env = dict(os.environ, PYTHONPATH=os.path.join(root, "src"), PYTHONDONTWRITEBYTECODE="1")
        t = subprocess.run("cd /repo && timeout 300 /venv/bin/python -m pytest -q -p no:cacheprovider -x --timeout=120 tests 2>&1 | tail -1",
                           shell=True, capture_output=True, text=True, env=env)
        res["tests"] = t.stdout.strip()[-80:]
        if not res["tests"].startswith("70 passed"):
            res["status"] = "killed-by-tests"
            return res
        env = dict(os.environ, FSVERIF_SRC=os.path.join(root, "src"), VERIF_EVIDENCE_DIR=os.path.join(root, "ev"), PYTHONDONTWRITEBYTECODE="1")
        res["checks"] = {}
        for ck in checks:
            r = subprocess.run("timeout 1500 bin/check %s --jobs 4" % ck, shell=True, cwd="/verif", capture_output=True, text=True, env=env)
            v = [l for l in r.stdout.split("\n") if l.startswith("  #")]
            res["checks"][ck] = r.returncode
            for l in r.stdout.split("\n"):
                if l.startswith("VIOLATION"):
                    try:
                        os.remove(l.split("replay=")[1].strip())
                    except OSError:
                        pass
            if r.returncode == 1:
                res["status"] = "killed"
                res["by"] = ck
                res["first"] = v[0][:240] if v else ""
                return res
            if r.returncode not in (0, 1):
                res["status"] = "check-error"
                res["by"] = ck
                res["first"] = (r.stdout + r.stderr)[-300:]
                return res
        res["status"] = "survived"
        return res
    except Exception as e:  # noqa
        res["status"] = "error"
        res["first"] = repr(e)
        return res
    finally:
        shutil.rmtree(root, ignore_errors=True)


def main():
    a = sys.argv[1:]
    seed, par = 0, 4
    if "--seed" in a:
        k = a.index("--seed"); seed = int(a[k + 1]); a = a[:k] + a[k + 2:]
    if "--par" in a:
        k = a.index("--par"); par = int(a[k + 1]); a = a[:k] + a[k + 2:]
    if a[0] == "--rerun":
        # tools/mutsweep.py --rerun <old.json> <out.json> <checks>: the survivors of an earlier sweep again
        old = json.load(open(a[1]))
        out, checks = a[2], a[3].split(",")
        jobs = []
        for r in old:
            if r["status"] != "survived":
                continue
            lines = open(os.path.join(SRC, "factorysimpy", r["file"])).read().split("\n")
            o = lines[r["line"] - 1]
            ind = re.match(r"^\s*", o).group(0)
            jobs.append((r["file"], r["line"] - 1, o, ind + r["new"], r["what"], checks))
        files = []
    else:
        out, n, files, checks = a[0], int(a[1]), a[2].split(","), a[3].split(",")
        jobs = []
    rng = random.Random(seed)
    for rel in files:
        lines, cands = candidates(os.path.join(SRC, "factorysimpy", rel))
        rng.shuffle(cands)
        seen = set()
        pick = []
        for c in cands:
            if c[0] in seen:
                continue
            seen.add(c[0])
            pick.append(c)
            if len(pick) >= n:
                break
        jobs += [(rel, i, old, new, what, checks) for (i, old, new, what) in pick]
    os.makedirs(SCRATCH, exist_ok=True)
    results = []
    with multiprocessing.Pool(par) as pool:
        for r in pool.imap_unordered(run_one, jobs):
            results.append(r)
            print("%-16s %s:%d %s | %s | %s" % (r["status"] + (":" + r.get("by", "") if r.get("by") else ""), r["file"], r["line"], r["what"],
                                                 r["new"][:70], r.get("first", "")[:120]), flush=True)
            json.dump(results, open(out, "w"), indent=1)
    from collections import Counter
    print(Counter(r["status"] for r in results))


if __name__ == "__main__":
    main()
