#!/venv/bin/python
"""tools/regress.py <out.json> [--par N] [--only substr]

Regression over every recorded breaking change: seeded/<id>/patch.diff (sub-agent seeds) and mutants/*.diff (own mutants, reverse-fix
mutants).  Each patch is applied to a scratch copy of /repo/src under /dev/shm (never to /repo) and the checks that are recorded as
detecting it (meta.json "detected_by"; for mutants the checks named in mutants/RESULTS.md or the file name) are run with
FSVERIF_SRC pointing at the copy.  A change counts as still detected if at least one of them exits 1 with a VIOLATION line."""
import sys, os, json, re, glob, shutil, subprocess, multiprocessing
ROOT = "/verif"


MUTANT_CHECKS = {
    "m01": ["C01"], "m02": ["C01"], "m03": ["C04"], "m04": ["C05"], "m05": ["C06", "C02"], "m06": ["C07"], "m07": ["C11", "C09"],
    "m08": ["C14"], "m09": ["C04", "C11"], "m10": ["C03", "C18"], "m12": ["C10"], "m13": ["C15"], "m14": ["C16"], "m16": ["C17"],
    "m17": ["C18"], "m18": ["C19"], "m19": ["C20"], "m20": ["C08"], "m21": ["C09", "C18"], "m22": ["C18"], "m23": ["C16"],
    "m25": ["C05"], "mc1": ["C12"], "mc2": ["C12"], "mc3": ["C12"], "mc4": ["C13", "C12"],
    "r_13f78be": ["C20"], "r_1cdb0b7": ["C14"], "r_61e51ec": ["C04"], "r_633da70": ["C17"], "r_7a8b4f0": ["C06"],
    "r_806dc1b": ["C06", "C02"], "r_a2e52a4": ["C02", "C06"], "r_d3183d6": ["C09"], "r_e0ba222": ["C15"], "r_ed735e2": ["C20"],
    "r_ee8445d": ["C20"],
}   # not listed: mc5 (equivalent for conveyors) and m24 (sorting by priority alone is equivalent: list.sort is stable and
#     requests are appended in arrival order) -- DESIGN §16


def sh(cmd, **kw):
    return subprocess.run(cmd, shell=True, capture_output=True, text=True, **kw)


def targets():
    out = []
    for d in sorted(glob.glob(os.path.join(ROOT, "seeded", "*"))):
        mp = os.path.join(d, "meta.json")
        if not os.path.exists(mp):
            continue
        m = json.load(open(mp))
        cks = m.get("detected_by") or [m.get("property")]
        out.append((os.path.basename(d), os.path.join(d, "patch.diff"), cks))
    res = {}
    rp = os.path.join(ROOT, "mutants", "RESULTS.md")
    if os.path.exists(rp):
        for l in open(rp):
            m = re.match(r"\|\s*`?([\w\-\.]+?)(?:\.diff)?`?\s*\|(.*)", l)
            if m:
                res[m.group(1)] = sorted(set(re.findall(r"\bC\d\d\b", m.group(2))))
    for f in sorted(glob.glob(os.path.join(ROOT, "mutants", "*.diff"))):
        name = os.path.basename(f)[:-5]
        cks = res.get(name) or MUTANT_CHECKS.get(name.split("_")[0] if not name.startswith("r_") else name)
        if cks:
            out.append(("mutant:" + name, f, cks))
    return out


def run(t):
    name, patch, cks = t
    root = "/dev/shm/fsverif-regress-%s-%d" % (re.sub(r"\W", "_", name), os.getpid())
    shutil.rmtree(root, ignore_errors=True)
    os.makedirs(root)
    try:
        sh("cp -r /repo/src %s/" % root)
        ap = sh("patch -p1 -d %s < %s" % (root, patch))
        if ap.returncode != 0:
            return {"name": name, "status": "patch-does-not-apply", "detail": (ap.stdout + ap.stderr)[-200:]}
        env = dict(os.environ, FSVERIF_SRC=os.path.join(root, "src"), VERIF_EVIDENCE_DIR=os.path.join(root, "ev"), PYTHONDONTWRITEBYTECODE="1")
        got = {}
        for c in cks:
            r = sh("timeout 2400 bin/check %s --jobs 5" % c, cwd=ROOT, env=env)
            nv = 0
            for l in r.stdout.split("\n"):
                if l.startswith("VIOLATION"):
                    nv += 1
                    try:
                        os.remove(l.split("replay=")[1].strip())
                    except OSError:
                        pass
            got[c] = (r.returncode, nv)
            if r.returncode == 1 and nv:
                return {"name": name, "status": "detected", "by": c, "checks": got}
        return {"name": name, "status": "MISSED", "checks": got}
    finally:
        shutil.rmtree(root, ignore_errors=True)


def main():
    a = sys.argv[1:]
    par, only = 3, None
    if "--par" in a:
        k = a.index("--par"); par = int(a[k + 1]); a = a[:k] + a[k + 2:]
    if "--only" in a:
        k = a.index("--only"); only = a[k + 1]; a = a[:k] + a[k + 2:]
    out = a[0]
    ts = [t for t in targets() if only is None or only in t[0]]
    res = []
    with multiprocessing.Pool(par) as pool:
        for r in pool.imap_unordered(run, ts):
            res.append(r)
            print(r["status"], r["name"], r.get("by", ""), r.get("checks", r.get("detail", "")), flush=True)
            json.dump(sorted(res, key=lambda x: x["name"]), open(out, "w"), indent=1)
    import collections
    print(collections.Counter(r["status"] for r in res))


if __name__ == "__main__":
    main()
