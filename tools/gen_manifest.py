#!/venv/bin/python
"""Regenerates MANIFEST.json from the table below (keeps it valid at all times)."""
import json, os
ROOT = os.path.dirname(os.path.dirname(os.path.abspath(__file__)))
PROPS = [json.loads(l)["id"] for l in open(os.path.join(ROOT, "properties.jsonl"))]

S_TEXT = ("Exhaustive breadth-first exploration (explicit-state model checking of the implementation): every sequence of "
          "reserve/put/get/cancel calls, kernel steps and clock advances on the real store/edge objects within small-scope "
          "bounds, de-duplicated on a canonical form of the live object graph plus monitor state; the property's monitor "
          "(reference model in lock-step) is evaluated after every transition. Quick tier reaches a fixpoint for most "
          "subjects; capped subjects are reported as such in the evidence.")
F_TEXT = ("Stateless exhaustive exploration of small factories built from the real nodes and edges: a bounded configuration "
          "grammar x every answer sequence of the delay / selector choice points up to a deviation bound, each run executed "
          "kernel event by kernel event under a ledger + container-scan monitor.")

CHECKS = {
    "C01": ("S", "§5 C01", "held + granted space reservations <= capacity in every reachable state; granted put always succeeds"),
    "C02": ("S", "§5 C02", "identity ledger: every get returns a distinct previously put item; containers == ledger after every call"),
    "C04": ("S", "§5 C04", "instant-end reference predicate: no servable head request stays pending"),
    "C05": ("S", "§5 C05", "grant-order monitor: no grant while a request with a smaller (priority, arrival) key waits"),
    "C06": ("S", "§5 C06", "possible-worlds FIFO/LIFO/filter reference incl. cancellation of granted retrievals"),
    "C07": ("S", "§5 C07", "every ill-formed call in every reachable state raises RuntimeError and leaves the canonical state unchanged (fork probe)"),
    "C11": ("S", "§5 C11", "can_put/can_get vs. probe reservation in a fork of every state; delay exactness from the ledger; drain probe"),
    "C03": ("F", "§5 C03", "identity ledger of every flow item (one place at a time) + container scan after every kernel event + discard counters"),
    "C08": ("F", "§5 C08", "items in machine <= work_capacity; offer time - pull time == drawn delay; delay drawn once per item"),
    "C09": ("F", "§5 C09", "blocking nodes never discard and never wait on an edge whose free places are only taken by their own stale reservations; non-blocking nodes decide in the instant the item is finished and drop only if no out-edge asked for that item had room; can_put answers vs ledger room"),
    "C10": ("F", "§5 C10", "instant-end predicates: sink leaves nothing available, free worker has requests, finished item on offer, token hygiene"),
    "C15": ("F", "§5 C15", "routing from the ledger vs policy (round robin, constant, callable/generator draws, RANDOM draws, first-available lowest index) and vs recorded selection history"),
    "C16": ("F", "§5 C16", "pallet content by identity vs recipe at every combiner put; splitter emission sequence per pallet"),
    "C17": ("F", "§5 C17", "independently integrated activity classes vs stats after update_final_state_time(T); partitions add up to T"),
    "C18": ("F", "§5 C18", "counters vs ledger at every instant end; independent occupancy integral vs reported time average; cycle-time sum; timestamps"),
    "C19": ("F", "§5 C19", "differential oracle: every enumerated run twice in-process and in 3 fresh interpreters (PYTHONHASHSEED 0/1/4242); monotone clock in every run"),
    "C20": ("F", "§5 C20", "every run of the full grammar incl. conveyors must finish without exception or zero-time livelock; every invalid configuration must raise"),
    "C12": ("S", "§5 C12", "conveyor edges: capacity, entry order, entry spacing vs kinematic reference, minimum and exact travel time; plus, with the factory engine, the necessary wall-clock conditions (order, spacing, travel time, capacity) on every conveyor of the configuration grammar incl. two belts in a row"),
    "C13": ("S", "§5 C13", "kinematic reference (stop / close-up) vs published availability at every instant end; no admission during a non-accumulating stall"),
    "C14": ("S", "§5 C14", "fleet batch / round-trip clauses from load times and observed availability times (departure only when full or when a waiting period ends, one full round trip, whole batch together, nobody left behind, loading order, the fleet's own process never dies); plus, with the factory engine, loading order through every fleet of the configuration grammar incl. 30-item runs"),
}
NA_REASON = "check not built yet in this session (planned: see DESIGN.md §5); not claimed until it runs silent on the unchanged tree"

def main():
    checks = []
    for pid in PROPS:
        if pid not in CHECKS:
            continue
        eng, ref, what = CHECKS[pid]
        checks.append({
            "property_id": pid,
            "quick_cmd": "bin/check %s --tier quick" % pid,
            "thorough_cmd": "bin/check %s --tier thorough" % pid,
            "evidence_file": "/verif/evidence/%s.json" % pid,
            "replay_cmd_template": "bin/check %s --replay {path}" % pid,
            "engine": "engine-%s" % eng,
            "level_claimed": {"category": "model_checking", "text": (S_TEXT if eng == "S" else F_TEXT) + " Oracle: " + what + ".",
                              "design_ref": ref},
            "level_note": "Trusted: SimPy 4.1.2 kernel, CPython 3.12; bounds: capacity<=4, outstanding requests<=4 on one side with 1-2 on the other "
                          "(<=2-3 on both sides), menus of priorities/delays/filters, time grid; factories: 3-8 items per source, deviation "
                          "bound 2 (quick) / 3 (thorough), plus 30 / 60-item runs with one deviation; harness seams of DESIGN §2 (no source hooks).",
            "technique": "explicit-state model checking of the implementation (BFS over call/kernel-step histories, canonical "
                         "heap-graph hashing, lock-step reference monitor)" if eng == "S" else
                         "stateless bounded-exhaustive exploration of real factories (deviation-bounded choice enumeration, ledger monitor)",
        })
    man = {
        "version": 1,
        "setup_cmd": "mkdir -p evidence replays",
        "hooks": {"guard": "FACTORYSIMPY_VERIF", "enable": "none needed: all seams are harness-side (DESIGN §2)",
                  "baseline_off_cmd": "cd /repo && /venv/bin/python -m pytest -ra -q -p no:cacheprovider --timeout=900 --continue-on-collection-errors",
                  "source_commits": [], "add_only": True},
        "engines": [
            {"name": "engine-S", "path": "fsverif/engine_s.py", "serves_properties": [p for p in PROPS if CHECKS.get(p, ("",))[0] == "S"],
             "kind_free_text": "explicit-state BFS over histories of real store/edge objects"},
            {"name": "engine-F", "path": "fsverif/engine_f.py", "serves_properties": [p for p in PROPS if CHECKS.get(p, ("",))[0] == "F"],
             "kind_free_text": "stateless exhaustive exploration of small factories"},
        ],
        "checks": checks,
        "not_applicable": [{"property_id": p, "reason": NA_REASON} for p in PROPS if p not in CHECKS],
        "notes": "See DESIGN.md. Known findings: known_findings.json. Seeded breaking changes: seeded/.",
    }
    json.dump(man, open(os.path.join(ROOT, "MANIFEST.json"), "w"), indent=1)
    print("checks:", [c["property_id"] for c in checks])

if __name__ == "__main__":
    main()
