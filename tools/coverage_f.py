#!/venv/bin/python
"""tools/coverage_f.py <out.json> [tier]: which library lines do the Engine-F configurations (deviation bound 1) and a sample of the
Engine-S subjects (first 400 BFS states each) execute?  Used to tell "mutant in code nothing reaches" from "mutant nobody notices"
when triaging tools/mutsweep.py survivors, and to list library code no subject reaches (DESIGN §16)."""
import sys, os, json, multiprocessing
sys.path.insert(0, "/verif")


def trace_lines(fn):
    from fsverif import seams
    root = os.path.realpath(seams.SRC)
    hit = set()

    def tr(frame, ev, arg):
        f = frame.f_code.co_filename
        if not f.startswith(root):
            return None
        if ev == "line":
            hit.add((f[len(root) + 1:], frame.f_lineno))
        return tr
    sys.settrace(tr)
    try:
        fn()
    finally:
        sys.settrace(None)
    return hit


def job_f(cfg):
    from fsverif import engine_f, fmonitors
    try:
        return trace_lines(lambda: engine_f.explore(cfg, fmonitors.FMONITORS["C03"] + fmonitors.FMONITORS["C17"] + fmonitors.FMONITORS["C18"] + fmonitors.FMONITORS["C10"], 1, "C03", max_runs=60, max_seconds=120))
    except BaseException:  # noqa
        return set()


def job_s(spj):
    from fsverif.world import Spec
    from fsverif import engine_s
    from fsverif.checks import s_monitors, PROBES
    sp = Spec.from_json(spj)
    try:
        return trace_lines(lambda: engine_s.explore(sp, "C07", s_monitors("C07", sp), probe=PROBES.get("C07"), max_states=400, max_seconds=120))
    except BaseException:  # noqa
        return set()


def main():
    out = sys.argv[1]
    tier = sys.argv[2] if len(sys.argv) > 2 else "quick"
    from fsverif import factory, checks
    cfgs, seen = [], set()
    for fam, f in factory.FAMILIES.items():
        for c in f(tier):
            if c["tag"] not in seen:
                seen.add(c["tag"])
                cfgs.append(c)
    specs, seen = [], set()
    for prop in ("C01", "C04", "C07", "C11", "C12", "C14", "C20"):
        for j in checks.jobs_for(prop, tier):
            if j["engine"] == "S" and j["label"] not in seen:
                seen.add(j["label"])
                specs.append(j["spec"])
    hit = set()
    with multiprocessing.Pool(16) as pool:
        for h in pool.imap_unordered(job_f, cfgs, chunksize=4):
            hit |= h
        for h in pool.imap_unordered(job_s, specs, chunksize=1):
            hit |= h
    d = {}
    for f, l in hit:
        d.setdefault(f, []).append(l)
    for f in d:
        d[f].sort()
    json.dump({"configs": len(cfgs), "subjects": len(specs), "lines": d}, open(out, "w"))
    print("configs", len(cfgs), "subjects", len(specs), "files", len(d), "lines", sum(len(v) for v in d.values()))


if __name__ == "__main__":
    main()
