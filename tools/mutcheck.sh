#!/bin/bash
# tools/mutcheck.sh <patch.diff> [--tests] <Cxx>...   apply a patch to /repo, run the given checks, undo the patch.
# prints one line per check: <patch> <Cxx> DETECTED|missed|broken (exit code of the check)
set -u
patch=$(readlink -f "$1"); shift
tests=0
if [ "${1:-}" = "--tests" ]; then tests=1; shift; fi
cd /repo || exit 2
if [ -n "$(git status --porcelain --untracked-files=no)" ]; then echo "/repo has uncommitted changes"; exit 2; fi
git apply "$patch" || { echo "patch does not apply: $patch"; exit 2; }
trap 'git -C /repo checkout -- . ' EXIT
if [ $tests = 1 ]; then
  r=$(timeout 1200 /venv/bin/python -m pytest -q -p no:cacheprovider --timeout=900 --continue-on-collection-errors 2>&1 | tail -1)
  echo "$(basename $patch) tests: $r"
fi
cd /verif
for c in "$@"; do
  out=$(VERIF_EVIDENCE_DIR=/var/tmp/fsverif-mut-evidence bin/check $c ${MUT_ARGS:-} 2>&1); rc=$?
  v=$(echo "$out" | grep -c '^VIOLATION')
  if [ $rc = 1 ] && [ $v -gt 0 ]; then s=DETECTED; elif [ $rc = 0 ]; then s=missed; else s="broken(rc=$rc)"; fi
  echo "$(basename $patch) $c $s violations=$v"
  echo "$out" | grep -A1 '^VIOLATION' | head -4
  echo "$out" | grep -E '^CHECK-(ERROR|BROKEN)' | head -3
done
